#!/usr/bin/env python3
"""Generates MANIFEST.json from the table below (kept in one place so it stays consistent)."""
import json, subprocess

HOOK_COMMITS = ["229a3b5"]

SIM_NOTE = ("Trusted base: SimNode's model of lightningd (DESIGN 2.2 assumptions 1-7), the in-memory "
            "replacement of rpc::Rpc's socket transport, tokio's paused clock. Everything else is the real code from /repo/src.")

# id -> (engine, category, technique, text, note, has_thorough, built)
CHECKS = {
 "C01": ("sim+e2e", "exploration", "online monitor over seeded hostile simulations of the real manager/store/provider; real binary under a fake lightningd that answers an RPC of another payment late (runtime monitoring)",
         "R01a SHA256(key)==htlc hash, R01b key comes from a complete part or the Succeeded record, R01c no pay while holding an HTLC with that invoice but another hash; evaluated on every Resolve / pay across 24k (quick) or 1M (thorough) runs with hash-mismatch-heavy plans, crashes and restarts; plus E2E sessions through the real rpc.rs in which a waitsendpay of payment H1 is answered late while payment H2 waits (nothing of H1 may reach H2). Held on the executions explored, not a proof.", SIM_NOTE),
 "C02": ("sim+e2e", "fault_enumeration", "online monitor at every Fail emission against node ground truth; random hostile schedules (incl. deliveries preempted at their first awaits while a second event is handled) plus enumeration of every crash position / single write fault in canonical scenarios",
         "R02: no trampoline HTLC is failed while a part is pending/complete or pay is running, judged at the instant of emission against SimNode; crashes, restarts, F1 write faults (all tiers), F2 read faults (thorough); plus enumeration of one crash / one write fault at every position of canonical 1-2 HTLC payments for every pay outcome; plus an E2E session through the real rpc.rs in which the pay command runs for 33 s (35/35/65 s thorough) and the HTLC must stay held.", SIM_NOTE + " E2E part trusts the fake lightningd."),
 "C03": ("sim", "exploration", "online monitor at every pay RPC against the set of delivered-unanswered HTLCs (runtime monitoring)",
         "R03a funded in u128, R03b maxfee within held-amount budget, R03c amount/bolt11 parameters, evaluated at every pay issue; fee-boundary +-1 msat plans, 1-8 parts, late extra HTLCs, restarts.", SIM_NOTE),
 "C04": ("sim", "exploration", "online monitor at every pay RPC against held expiries and the heights told to the plugin; concurrent notification pairs with the first handler suspended at its first awaits (runtime monitoring)",
         "R04a maxdelay <= max(0, min expiry - known height - delta) and <= policy delta using the loosest sound snapshot; R04b low-expiry HTLC before funding rejects the set; heights advance during collection, real BlockWatcher in the loop.", SIM_NOTE),
 "C05": ("sim+e2e", "fault_enumeration", "online monitor at every pay RPC against the sendpay table; random schedules plus crash/fault position enumeration",
         "R05: no pay while a part of the hash is pending/complete or another pay runs, for overlapping lifecycles, every crash position around the two attempt writes and pay, every stored history at restart; plus E2E crash sessions (real binary SIGKILLed after RPC effect k, restarted against the surviving node state) judged on the node's own state, and sessions in which the RPC connection dies after pay was accepted (no second pay may follow).", SIM_NOTE + " E2E part trusts the fake lightningd."),
 "C06": ("sim+e2e", "exploration", "panic hook + reply accounting + bounded-liveness monitor in virtual time; real binary under a fake lightningd for the process-level half",
         "R06a exactly one well-formed answer, R06b no panic, R06c nothing unanswered after the environment is drained and the clock is past 10x mpp timeout, R06d table lock free at every quiescence; hostile payload/metadata bytes and numeric extremes; E2E: 120 (3000 thorough) sessions of hostile requests against the real binary, thorough also 60 under valgrind memcheck and 400 against an AddressSanitizer build (supplementary). 'Eventually' is decided only as this bounded statement; wall clock only via the ping rule.", SIM_NOTE + " E2E part trusts the fake lightningd's framing."),
 "C07": ("sim", "exploration", "window monitor over answers per payment hash (runtime monitoring)",
         "R07a identical answers, R07b no member of the set left unanswered, R07c a rejecting HTLC in a still-incomplete set means no pay and Fail for all; rejecting HTLC at every position/phase including while the stored state is being fetched.", SIM_NOTE),
 "C08": ("sim+e2e", "fault_enumeration", "state invariant evaluated after every node state change (each a crash image), durable record read through the plugin's own store",
         "R08a live part or running pay => record reads Pending/Succeeded; R08b Succeeded preimage hashes to the hash; R08c record is Pending at pay issue; checked after every environment step, with F1 faults on each write site and crash/fault position enumeration; the same invariants on the fake node's own state in E2E crash sessions with the real binary.", SIM_NOTE + " E2E part trusts the fake lightningd."),
 "C09": ("sim+e2e", "fault_enumeration", "probe payments after every explored crash/fault history (recovery oracle)",
         "R09: after every explored history (random multi-crash/multi-fault, and the enumeration of one crash at every step and one write fault of either kind at every write), a restart (or none: same-process mode) plus up to three fully funded probe sets in a cooperative environment must settle, with the stored attempt left recent or aged beyond the MPP timeout; repeated with the real binary killed after RPC effect k.", SIM_NOTE + " E2E part trusts the fake lightningd."),
 "C10": ("sim", "exploration", "reference classifier derived from how each request was built vs observed classification",
         "R10: observed classification (continue / fail-at-classification / held as trampoline with pay bolt11+amount) equals the reference over the invoice x signature x hints x hash x amount-field x record-order x flag product (6000 cases enumerated, plus random runs); the payee reported on payment failure equals the key the signature verifies against.", SIM_NOTE),
 "C11": ("sim", "exploration", "virtual-time monitor on Fail timestamps relative to the stored-state read",
         "R11a incomplete sets get 0x2019 and no pay; R11b not before read+mpp; R11c not later than read+mpp+5ms; R11d restart grants at most one further timeout (aged stored histories).", SIM_NOTE + " Wall clock inside the plugin only enters R11d (tolerance 1 s + run wall time)."),
 "C12": ("pure+sim", "exploration", "reference oracle (u128 predicate) over boundary cross product and frontier-biased random inputs in debug, release and Miri builds; SIM monitor for the failure bytes",
         "R12a fee_sufficient == exact u128 predicate and no panic, in an overflow-checking build, a wrapping build and (thorough) under Miri; R12b every 0x201a failure carries exactly the configured policy; R12c first HTLC failing the fee/expiry test is answered with it. One known finding (mul-overflow conservative false) is keyed by signature.", "Trusted base: the u128 reference predicate; catch_unwind observes panics. " + SIM_NOTE),
 "C14": ("sim+e2e", "exploration", "differential runtime monitoring: B alone vs B next to A frozen at each suspension point, same canonical schedule",
         "R14a B's RPC sequence, replies, answers identical and not delayed; R14b table lock free at every quiescence while A is frozen; R14c every datastore key names an offered hash and calls for B never mention A; R14d an HTLC of another hash carrying B's invoice is never pooled into B; 11 freeze points x 92 B scenarios (x12 seeds thorough); plus E2E isolation sessions through the real rpc.rs (payments stuck in pay / waitsendpay must not delay another hash).", SIM_NOTE + " E2E part trusts the fake lightningd; wall clock only via the ping rule."),
 "C15": ("prov", "fault_enumeration", "depth-first enumeration of all interleavings of RPC effects with part resolutions against the real wait_payment; oracle at the instant of return",
         "R15a preimage only from a complete part; R15b 'none' only if no part pending/complete at return; R15c documented part-level codes never abort the wait. Exhaustive for <=3 parts in every status mix (4 pending in thorough) x codes 202/203/204/208/209.", "Trusted base: SimNode sendpay semantics (assumptions 1-4); effect and reply fused."),
 "C16": ("prov+e2e", "fault_enumeration", "depth-first enumeration of pay outcomes x part configurations x resolution orders against the real pay wrapper; oracle at the instant of return; real binary whose connection dies after pay was accepted",
         "R16a Ok only with the preimage of a complete part; R16b Err only when no part pending/complete and no pay running; every outcome {complete,pending,failed,failed+warning,rpc error} at every point of a pay creating up to 2 (3 thorough) parts; plus E2E sessions through the real rpc.rs: connection lost after lightningd accepted pay, the part completing afterwards.", "Trusted base: SimNode pay/sendpay semantics (assumptions 1-4)."),
 "C17": ("driver+e2e", "exploration", "byte-stream chunking and handler-completion-order exploration of the real plugin driver over an in-memory pipe; real binary with trace logging under a fake lightningd",
         "R17a each request handed to its handler exactly once in decode order; R17b exactly one reply per id carrying that request's result; R17c output is complete JSON documents each followed by a blank line; chunks cut at every offset around separators, inside multi-byte UTF-8, 1-byte reads; up to 64 concurrent calls finished out of order; E2E adds concurrent log notifications through the shared writer.", "Trusted base: tokio duplex pipe semantics; the fake lightningd's own framing in E2E."),
 "C18": ("pure", "exploration", "reference codec oracle over exhaustive small inputs and structure-aware generated inputs; debug, release and Miri builds",
         "R18a no panic from from_bytes/try_from/to_bytes/get_tu64 on any input; R18b decode-encode identity on valid BOLT streams (and the length-prefixed entry point agrees); R18c encode-decode identity; R18d tu64 value for 0-8 bytes, rejection above. Exhaustive for all byte strings <=3 bytes and all strings <=7 over a 7-letter boundary alphabet.", "Trusted base: the independent BigSize/TLV reference codec in the harness."),
 "C19": ("e2e", "exploration", "start-up and probe sessions of the real binary under a fake lightningd for pairwise option assignments; reference validity predicate",
         "R19a refuse (exit non-zero, no init ack) iff a value is out of range or policy delta <= safety delta, else acknowledge and keep serving; R19b accepted values are the ones applied: 201a bytes, pay retry_for/maxdelay/maxfee/label, self-route-hint flag, MPP timing (one-sided).", "Trusted base: the fake lightningd; wall clock used one-sidedly (late = inconclusive)."),
 "C20": ("block+sim+e2e", "exploration", "online monitor of current_height against the running maximum of heights told, under virtual time, with lost/duplicated/stale notifications, failing polls and concurrent notification pairs preempted at their awaits; bounded catch-up check",
         "R20a current_height == max(heights told) after every step (never decreases); R20b with notifications lost and polls answered, height catches up within one poll interval (61 s virtual); E2E sessions feed block_added notifications (and, in 2 sessions, 16 in thorough, a silent rise + 63 s wait, half of them with another payment stuck in pay) to the real binary and read the height used off pay.maxdelay.", "Trusted base: tokio paused clock; getinfo replies are snapshots at evaluation time; fake lightningd in E2E."),
 "C13": ("sim", "exploration", "reference label Continue vs observed answer, RPC log and table size in the delivery window",
         "R13a continue at once, R13b no RPC in the delivery window, R13c nothing retained, R13d payload rewrite only drops record 16 (independent BigSize codec).", SIM_NOTE),
}

NOT_BUILT = {}

def main():
    checks = []
    for pid, (engine, cat, tech, text, note) in sorted(CHECKS.items()):
        checks.append({
            "property_id": pid,
            "quick_cmd": f"./check {pid} --tier quick",
            "thorough_cmd": f"./check {pid} --tier thorough",
            "evidence_file": f"/verif/evidence/{pid}.json",
            "replay_cmd_template": "./check replay {path}",
            "engine": engine,
            "level_claimed": {"category": cat, "text": text, "design_ref": f"DESIGN.md section 3 ({pid})"},
            "level_note": note,
            "technique": tech,
        })
    props = [json.loads(l)["id"] for l in open("/verif/properties.jsonl")]
    na = [{"property_id": p, "reason": NOT_BUILT.get(p, "check not built yet in this round; see DESIGN.md section 3 for the planned monitor")} for p in props if p not in CHECKS]
    m = {
        "version": 1,
        "setup_cmd": "./check setup",
        "hooks": {
            "guard": "cargo feature verif-hooks",
            "enable": "cargo build --features verif-hooks (plugin binary); the harness crate enables its own verif-hooks feature for the #[path]-included sources",
            "baseline_off_cmd": "cd /repo && cargo test --workspace --no-fail-fast --offline",
            "source_commits": HOOK_COMMITS,
            "add_only": True,
        },
        "engines": [
            {"name": "prov/block/driver/c14", "path": "/verif/harness", "serves_properties": ["C14","C15","C16","C17","C20"], "kind_free_text": "real provider / block watcher / plugin driver driven directly under the paused clock with enumerated or random schedules"},
            {"name": "sim", "path": "/verif/harness", "serves_properties": [p for p, c in CHECKS.items() if "sim" in c[0]], "kind_free_text": "real /repo/src modules under a simulated lightningd, paused tokio clock, seeded hostile scheduler, online monitors"},
            {"name": "e2e", "path": "/verif/harness", "serves_properties": [p for p, c in CHECKS.items() if "e2e" in c[0]], "kind_free_text": "real trampoline binary as child process under a fake lightningd (stdio + unix socket)"},
            {"name": "pure", "path": "/verif/harness-pure", "serves_properties": [p for p, c in CHECKS.items() if "pure" in c[0]], "kind_free_text": "direct calls of tlv/messages functions with reference oracles; native debug, native release, Miri"},
        ],
        "checks": checks,
        "not_applicable": na,
        "notes": "Technique family: runtime monitoring and sanitizers. See DESIGN.md. Exit 0 held / 1 VIOLATION / 2 INCONCLUSIVE.",
    }
    json.dump(m, open("/verif/MANIFEST.json", "w"), indent=1)
    print("checks:", len(checks), "not_applicable:", len(na))

if __name__ == "__main__":
    main()
