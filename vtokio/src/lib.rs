//! `tokio`, as the code under test sees it in the SIM engines: everything is the real tokio
//! (re-exported), except `sync::Mutex`, whose `lock()` may first yield to the scheduler.
//!
//! Why: on the single-threaded runtime the SIM engines use, a task runs without interruption
//! from one *pending* await to the next, and an uncontended `lock().await` is never pending. On
//! the multi-threaded runtime of the real binary another worker can run between any two awaits.
//! A yield in front of a lock acquisition is an interleaving the real program has (the task is
//! suspended at an await that exists in the source); it lets the deterministic single-threaded
//! engines reach schedules in which a task the plugin spawned itself (payment lifecycle, poll
//! loop) is overtaken between two critical sections.
//!
//! The decision to yield comes from a seeded thread-local generator, so a run replays exactly.
pub use real_tokio::*;

pub mod chaos {
    use std::cell::Cell;
    thread_local! {
        static STATE: Cell<u64> = Cell::new(0);
        static PCT: Cell<u64> = Cell::new(0);
        static OFF: Cell<u32> = Cell::new(0);
        static YIELDS: Cell<u64> = Cell::new(0);
        static POINTS: Cell<u64> = Cell::new(0);
    }
    /// Seeds the generator of the calling thread; `pct` per cent of the lock acquisitions yield.
    pub fn configure(seed: u64, pct: u64) {
        STATE.with(|s| s.set(seed | 1));
        PCT.with(|p| p.set(pct));
        YIELDS.with(|y| y.set(0));
        POINTS.with(|y| y.set(0));
    }
    /// (lock acquisitions seen, yields injected) since `configure`.
    pub fn counters() -> (u64, u64) {
        (POINTS.with(|p| p.get()), YIELDS.with(|y| y.get()))
    }
    /// Runs `f` with yields disabled (for the checker's own synchronous probes).
    pub fn quiet<R>(f: impl FnOnce() -> R) -> R {
        OFF.with(|o| o.set(o.get() + 1));
        let r = f();
        OFF.with(|o| o.set(o.get() - 1));
        r
    }
    pub(crate) fn decide() -> bool {
        let pct = PCT.with(|p| p.get());
        if pct == 0 || OFF.with(|o| o.get()) > 0 {
            return false;
        }
        POINTS.with(|p| p.set(p.get() + 1));
        let x = STATE.with(|s| {
            // xorshift64*
            let mut x = s.get();
            x ^= x >> 12;
            x ^= x << 25;
            x ^= x >> 27;
            s.set(x);
            x.wrapping_mul(0x2545F4914F6CDD1D)
        });
        let y = (x >> 33) % 100 < pct;
        if y {
            YIELDS.with(|c| c.set(c.get() + 1));
        }
        y
    }
}

pub mod sync {
    pub use real_tokio::sync::*;

    /// `tokio::sync::Mutex` with a possible yield in front of `lock()`.
    pub struct Mutex<T: ?Sized>(real_tokio::sync::Mutex<T>);

    impl<T> Mutex<T> {
        pub fn new(t: T) -> Self {
            Mutex(real_tokio::sync::Mutex::new(t))
        }
        pub fn into_inner(self) -> T {
            self.0.into_inner()
        }
    }

    impl<T: ?Sized> Mutex<T> {
        pub async fn lock(&self) -> MutexGuard<'_, T> {
            if crate::chaos::decide() {
                real_tokio::task::yield_now().await;
            }
            self.0.lock().await
        }
    }

    impl<T: ?Sized> std::ops::Deref for Mutex<T> {
        type Target = real_tokio::sync::Mutex<T>;
        fn deref(&self) -> &Self::Target {
            &self.0
        }
    }

    impl<T: ?Sized + std::fmt::Debug> std::fmt::Debug for Mutex<T> {
        fn fmt(&self, f: &mut std::fmt::Formatter<'_>) -> std::fmt::Result {
            self.0.fmt(f)
        }
    }

    impl<T: Default> Default for Mutex<T> {
        fn default() -> Self {
            Mutex::new(T::default())
        }
    }
}
