#!/bin/bash
# usage: eval_round.sh <out-suffix> <prop> [extra check ids...]   -- confirm both mutations of a sub-agent, then run quick checks
suf=$1; p=$2; shift 2
[ -d /tmp/wt1 ] || git -C /repo worktree add --detach /tmp/wt1 HEAD >/dev/null 2>&1
for x in A B; do
  [ -f /tmp/mut/$p-out$suf/mut$x.diff ] || { echo "=== $p $x: no mutation delivered"; continue; }
  echo "=== $p $x"
  ./confirm_mut.sh /tmp/mut/$p-out$suf $x 2>&1 | tail -3 | cut -c1-160
  ./mut_eval.sh /tmp/mut/$p-out$suf/mut$x.diff quick $p "$@" 2>&1 | cut -c1-260
done
