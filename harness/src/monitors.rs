//! Online monitors R01..R13 (+R20a passive) over the simulated world (DESIGN section 3).
//! Every rule is evaluated against the node's ground truth at the instant the plugin's
//! action becomes observable at the boundary.

use crate::gen::RefLabel;
use crate::node::PartStatus;
use crate::world::*;
use serde_json::Value;

fn amount_param(v: Option<&Value>) -> Option<u64> {
    match v {
        Some(Value::String(s)) => s.trim_end_matches("msat").parse().ok(),
        Some(Value::Number(n)) => n.as_u64(),
        _ => None,
    }
}

pub fn policy_failure(cfg: &SimCfg) -> Vec<u8> {
    let mut s = vec![0x20, 0x1a];
    s.extend_from_slice(&cfg.base.to_be_bytes());
    s.extend_from_slice(&cfg.ppm.to_be_bytes());
    s.extend_from_slice(&cfg.policy_delta.to_be_bytes());
    s
}

fn parts_ctx(w: &World, i: usize) -> u64 {
    let (p, c, f) = w.node.live_parts(&w.hashes[i].hex);
    (p.min(3) as u64) | ((c.min(3) as u64) << 2) | ((f.min(3) as u64) << 4) | ((w.node.pay_running(&w.hashes[i].hex) as u64) << 6)
}

/// A trampoline HTLC whose delivery commutes, in the reference model, with the delivery of another
/// such HTLC of the same hash: same invoice and amount as the set it joins (or opens), and no
/// reason to reject the set (expiry, declared total).
pub fn commuting_part(w: &World, u: usize) -> bool {
    let (amount, bolt11) = match &w.htlcs[u].spec.label {
        RefLabel::Tramp { amount_msat, bolt11, .. } => (*amount_msat, bolt11.clone()),
        _ => return false,
    };
    let i = match w.htlcs[u].hidx {
        Some(i) => i,
        None => return false,
    };
    if let Some(first) = w.sets[i].first {
        if !w.held(i).is_empty() {
            match &w.htlcs[first].spec.label {
                RefLabel::Tramp { amount_msat: a0, bolt11: b0, .. } if *a0 == amount && *b0 == bolt11 => {}
                _ => return false,
            }
        }
    }
    let rel = w.htlcs[u].spec.cltv_expiry as i64 - w.node.height as i64;
    let declared = w.htlcs[u].spec.total_msat.or(w.htlcs[u].spec.forward_msat).unwrap_or(0);
    rel >= w.cfg.policy_delta as i64 && w.fee_ok(declared as u128, amount)
}

/// Called when a Tramp-labelled HTLC for hash `i` is about to be delivered.
pub fn on_deliver_tramp(w: &mut World, u: usize, i: usize, rel_expiry: i64) {
    let held_before = w.held(i);
    let (amount, bolt11) = match &w.htlcs[u].spec.label {
        RefLabel::Tramp { amount_msat, bolt11, .. } => (*amount_msat, bolt11.clone()),
        _ => return,
    };
    if held_before.is_empty() {
        let rec = w.rec(i);
        let live = w.node.live(&w.hashes[i].hex);
        let id = w.sets[i].set_id + 1;
        w.sets[i] = SetRt {
            set_id: id,
            active: true,
            first: Some(u),
            rec_at_first: Some(rec),
            live_at_first: live,
            aged_secs: w.aged_hashes.iter().find(|(h, _)| *h == i).map(|(_, a)| *a),
            wall_start: Some(std::time::Instant::now()),
            ..Default::default()
        };
    }
    w.htlcs[u].set_id = w.sets[i].set_id;
    // rejecting? (reference, from the statements of C07/C04/C12)
    let first = w.sets[i].first.unwrap();
    let mut reason: Option<&'static str> = None;
    if first != u {
        if let RefLabel::Tramp { amount_msat: a0, bolt11: b0, .. } = &w.htlcs[first].spec.label {
            if *a0 != amount || *b0 != bolt11 {
                reason = Some("conflict");
            }
        }
    }
    if rel_expiry < w.cfg.policy_delta as i64 {
        reason = reason.or(Some("expiry"));
    }
    let declared = w.htlcs[u].spec.total_msat.or(w.htlcs[u].spec.forward_msat).unwrap_or(0);
    if !w.fee_ok(declared as u128, amount) {
        reason = reason.or(Some("total"));
    }
    if let Some(r) = reason {
        let sum: u128 = held_before.iter().map(|k| w.htlcs[*k].spec.amount_msat as u128).sum();
        let set_amount = match &w.htlcs[first].spec.label {
            RefLabel::Tramp { amount_msat, .. } => *amount_msat,
            _ => amount,
        };
        let incomplete = !w.fee_ok(sum, set_amount);
        let no_attempt = w.sets[i].rec_at_first == Some(Rec::Free) && !w.sets[i].live_at_first && !w.sets[i].paid;
        if incomplete && no_attempt && w.sets[i].rejected_by.is_none() {
            w.sets[i].rejected_by = Some((u, r));
            if first == u {
                // R12c: the first HTLC itself is rejected for fee/expiry
                let r1 = if rel_expiry < w.cfg.policy_delta as i64 {
                    Some("expiry")
                } else if !w.fee_ok(declared as u128, amount) {
                    Some("total")
                } else {
                    None
                };
                w.sets[i].first_rejecting = r1;
            }
        }
    }
}

/// Called under the world lock at the instant the plugin issues an RPC.
pub fn on_call_issued(w: &mut World, cidx: usize) {
    let method = w.calls[cidx].method.clone();
    let hidx = w.calls[cidx].hidx;
    let params = w.calls[cidx].params.clone();
    if let Some(i) = hidx {
        if (method == "datastore") && w.sets[i].active && w.sets[i].write_snap.is_none() && !w.sets[i].paid {
            let held = w.held(i);
            if let Some(m) = held.iter().map(|k| w.htlcs[*k].spec.cltv_expiry).min() {
                w.sets[i].write_snap = Some((m, w.told_height));
            }
        }
    }
    if method != "pay" {
        return;
    }
    let i = match hidx {
        Some(i) => i,
        None => {
            w.violate("C03", "R03c", "R03c|pay-for-unknown-invoice".into(), format!("pay issued for an invoice that belongs to no offered hash: {}", short(&params)));
            return;
        }
    };
    let hex = w.hashes[i].hex.clone();
    let held = w.held(i);
    let ctx = parts_ctx(w, i) | ((held.len().min(15) as u64) << 8);
    // ---- R05: no earlier attempt live
    let (pend, comp, _f) = w.node.live_parts(&hex);
    let rtag = w.rec(i).tag();
    w.stats.eval("R05", ctx | (rtag << 16));
    if pend > 0 || comp > 0 || w.node.pay_running(&hex) {
        w.violate(
            "C05",
            "R05",
            format!("R05|pay-while|pending={}|complete={}|payrun={}", pend.min(1), comp.min(1), w.node.pay_running(&hex) as u8),
            format!("pay issued for {hex} while pending={pend} complete={comp} pay_running={}", w.node.pay_running(&hex)),
        );
    }
    // ---- R08c: in-flight marker durably written before pay
    let rec = w.rec(i);
    w.stats.eval("R08c", rec.tag());
    if rec != Rec::Pending {
        w.violate("C08", "R08c", format!("R08c|pay-with-rec={}", rec.name()), format!("pay issued for {hex} while the durable record reads {}", rec.name()));
    }
    // ---- R01c: every held HTLC carrying this invoice has the invoice's hash
    let bolt11 = params.get("bolt11").and_then(|v| v.as_str()).unwrap_or("").to_string();
    w.stats.eval("R01c", ctx);
    let offenders: Vec<usize> = w
        .htlcs
        .iter()
        .enumerate()
        .filter(|(_, x)| x.state == HState::Delivered && x.lifetime == w.lifetime)
        .filter(|(_, x)| match &x.spec.metadata {
            crate::gen::Metadata::Tramp { invoice, .. } => invoice.bolt11 == bolt11 && x.spec.htlc_hash != w.hashes[i].hash,
            _ => false,
        })
        .map(|(k, _)| k)
        .collect();
    if !offenders.is_empty() {
        w.violate("C01", "R01c", "R01c|pay-on-behalf-of-other-hash".into(), format!("pay({hex}) issued while holding HTLC(s) {offenders:?} with this invoice but a different payment hash"));
    }
    // ---- R03
    let sum: u128 = held.iter().map(|k| w.htlcs[*k].spec.amount_msat as u128).sum();
    let first = w.sets[i].first;
    let (a, b0) = match first.and_then(|f| match &w.htlcs[f].spec.label {
        RefLabel::Tramp { amount_msat, bolt11, .. } => Some((*amount_msat, bolt11.clone())),
        _ => None,
    }) {
        Some(x) => x,
        None => {
            w.violate("C03", "R03a", "R03a|pay-with-nothing-held".into(), format!("pay({hex}) issued while no trampoline HTLC for the hash is held"));
            w.sets[i].paid = true;
            return;
        }
    };
    let fee = w.cfg.base as u128 + (a as u128 * w.cfg.ppm as u128) / 1_000_000;
    let ctx3 = ((sum == a as u128 + fee) as u64) | (((sum > a as u128 + fee) as u64) << 1) | ((held.len().min(15) as u64) << 2);
    w.stats.eval("R03a", ctx3);
    if sum < a as u128 + fee {
        w.violate("C03", "R03a", "R03a|underfunded".into(), format!("pay({hex}) with held sum {sum} < amount {a} + fee {fee}; held={held:?}"));
        // the same event seen from C11: an outgoing payment was started for an incomplete set
        w.stats.eval("R11a", 2);
        w.violate("C11", "R11a", "R11a|pay-for-incomplete-set".into(), format!("pay({hex}) started although the held HTLCs total {sum} < amount {a} + fee {fee}"));
    }
    let maxfee = amount_param(params.get("maxfee"));
    w.stats.eval("R03b", ctx3);
    match maxfee {
        Some(mf) => {
            if (mf as u128) > sum.saturating_sub(a as u128) {
                w.violate("C03", "R03b", "R03b|maxfee-exceeds-budget".into(), format!("pay({hex}) maxfee {mf} > held {sum} - amount {a}"));
            }
        }
        None => w.violate("C03", "R03b", "R03b|maxfee-missing".into(), format!("pay({hex}) without a parsable maxfee: {}", short(&params))),
    }
    let inv_has_amount = match &w.htlcs[first.unwrap()].spec.metadata {
        crate::gen::Metadata::Tramp { invoice, .. } => invoice.amount_msat.is_some(),
        _ => true,
    };
    let amt_p = amount_param(params.get("amount_msat"));
    w.stats.eval("R03c", inv_has_amount as u64);
    if bolt11 != b0 {
        w.violate("C03", "R03c", "R03c|bolt11-differs".into(), format!("pay({hex}) bolt11 differs from the set's invoice"));
    }
    if inv_has_amount && params.get("amount_msat").map(|v| !v.is_null()).unwrap_or(false) {
        w.violate("C03", "R03c", "R03c|amount-given-for-fixed-invoice".into(), format!("pay({hex}) passes amount_msat {:?} for a fixed-amount invoice", params.get("amount_msat")));
    }
    if !inv_has_amount && amt_p != Some(a) {
        w.violate("C03", "R03c", "R03c|amount-wrong".into(), format!("pay({hex}) amount_msat {:?} != sender-declared {a}", params.get("amount_msat")));
    }
    // ---- R04a
    let maxdelay = params.get("maxdelay").and_then(|v| v.as_u64());
    let snap = w.sets[i].early_snap.or_else(|| held.iter().map(|k| w.htlcs[*k].spec.cltv_expiry).min().map(|m| (m, w.told_height)));
    if let (Some(md), Some((minexp, height))) = (maxdelay, snap) {
        let bound = (minexp as i64 - height as i64 - w.cfg.cltv_delta as i64).max(0) as u64;
        let ctx4 = ((bound == 0) as u64) | (((bound > w.cfg.policy_delta as u64) as u64) << 1) | (((bound > 65535) as u64) << 2) | (((md == bound.min(w.cfg.policy_delta as u64)) as u64) << 3);
        w.stats.eval("R04a", ctx4);
        if md > bound || md > w.cfg.policy_delta as u64 {
            w.violate("C04", "R04a", format!("R04a|maxdelay-too-large|gt_policy={}", (md > w.cfg.policy_delta as u64) as u8), format!("pay({hex}) maxdelay {md} > max(0, minexp {minexp} - height {height} - delta {}) = {bound} or > policy {}", w.cfg.cltv_delta, w.cfg.policy_delta));
        }
        if let Some((me, ht)) = w.sets[i].write_snap {
            let tight = ((me as i64 - ht as i64 - w.cfg.cltv_delta as i64).max(0) as u64).min(w.cfg.policy_delta as u64);
            w.stats.eval("R04a-tight", (md == tight) as u64);
        }
    } else {
        w.violate("C04", "R04a", "R04a|maxdelay-missing".into(), format!("pay({hex}) without maxdelay"));
    }
    // ---- R07c / R04b
    w.stats.eval("R07c", w.sets[i].rejected_by.is_some() as u64);
    if let Some((u, r)) = w.sets[i].rejected_by {
        let prop = if r == "expiry" { "C04" } else { "C07" };
        let rule = if r == "expiry" { "R04b" } else { "R07c" };
        w.violate(prop, rule, format!("{rule}|pay-after-rejection|{r}"), format!("pay({hex}) although HTLC #{u} rejected the still-incomplete set ({r})"));
    }
    // bookkeeping
    let pay_marker = w.calls[cidx].id;
    for k in &held {
        w.htlcs[*k].funding_pay = Some(pay_marker);
    }
    w.sets[i].paid = true;
}

fn classify_answer(v: &Value) -> AnsKind {
    let r = v.get("result").and_then(|x| x.as_str());
    let hexf = |k: &str| v.get(k).and_then(|x| x.as_str()).and_then(|s| hex::decode(s).ok());
    match r {
        Some("continue") => match v.get("payload") {
            None => AnsKind::Continue,
            Some(Value::String(s)) if hex::decode(s).is_ok() => AnsKind::Continue,
            _ => AnsKind::Malformed,
        },
        Some("fail") => match hexf("failure_message") {
            Some(b) if b.len() >= 2 => AnsKind::Fail(b),
            _ => AnsKind::Malformed,
        },
        // any hex key is a resolve (R01 judges it); a key that is not 32 bytes is in addition
        // not well-formed (R06a, checked by the caller)
        Some("resolve") => match hexf("payment_key") {
            Some(b) => AnsKind::Resolve(b),
            _ => AnsKind::Malformed,
        },
        _ => AnsKind::Malformed,
    }
}

/// Called under the world lock when handle_htlc returned for HTLC `u`.
pub fn on_answer(w: &mut World, u: usize, json: Value) {
    let kind = classify_answer(&json);
    let now = w.now_ms();
    w.ev(|| format!("ANSWER htlc#{u} {}", short(&json)));
    if w.htlcs[u].state != HState::Delivered {
        w.violate("C06", "R06a", "R06a|second-answer".into(), format!("HTLC #{u} answered twice"));
        return;
    }
    w.htlcs[u].state = HState::Answered;
    w.htlcs[u].answer = Some(Answer { json: json.clone(), kind: kind.clone(), step: w.step, at_ms: now, lifetime: w.lifetime });
    w.window_answers.push(u);
    w.stats.eval("R06a", match &kind { AnsKind::Continue => 0, AnsKind::Fail(_) => 1, AnsKind::Resolve(_) => 2, _ => 3 });
    if kind == AnsKind::Malformed {
        w.violate("C06", "R06a", "R06a|malformed-answer".into(), format!("HTLC #{u} answer not well-formed: {}", short(&json)));
        return;
    }
    if let AnsKind::Resolve(k) = &kind {
        if k.len() != 32 {
            w.violate("C06", "R06a", "R06a|payment-key-not-32-bytes".into(), format!("HTLC #{u} resolved with a {}-byte key", k.len()));
        }
    }
    let label = w.htlcs[u].spec.label.clone();
    let in_window = w.htlcs[u].delivered_step == w.step;
    let hh = w.htlcs[u].spec.htlc_hash;
    let own = w.hashes.iter().position(|h| h.hash == hh);

    // ---- R01a/R01b: any resolve
    if let AnsKind::Resolve(key) = &kind {
        let ok_hash = crate::gen::sha256_of(key) == hh;
        w.stats.eval("R01a", ok_hash as u64 | ((matches!(label, RefLabel::Tramp { .. }) as u64) << 1));
        if !ok_hash {
            w.violate("C01", "R01a", "R01a|key-not-preimage-of-htlc-hash".into(), format!("HTLC #{u} (hash {}) resolved with a key hashing to {}", hex::encode(hh), hex::encode(crate::gen::sha256_of(key))));
        }
        if let Some(i) = own {
            let hex_ = w.hashes[i].hex.clone();
            let from_part = w.node.parts.iter().any(|p| p.hash_hex == hex_ && p.status == PartStatus::Complete && p.preimage.map(|x| x.to_vec()) == Some(key.clone()));
            let rec = w.rec(i);
            let from_rec = rec == Rec::Succeeded(key.clone());
            w.stats.eval("R01b", from_part as u64 | ((from_rec as u64) << 1));
            if !from_part && !from_rec {
                w.violate("C01", "R01b", "R01b|key-without-completed-payment".into(), format!("HTLC #{u} resolved with a key that is neither a completed part's preimage nor the recorded one (rec={})", rec.name()));
            }
        } else if ok_hash {
            w.violate("C01", "R01b", "R01b|key-for-unknown-hash".into(), format!("HTLC #{u} resolved for a hash nobody can know the preimage of"));
        }
    }

    // ---- R12b: any 0x201a failure carries exactly the configured policy
    if let AnsKind::Fail(b) = &kind {
        if b.len() >= 2 && b[0] == 0x20 && b[1] == 0x1a {
            let exp = policy_failure(&w.cfg);
            w.stats.eval("R12b", (b == &exp) as u64);
            if b != &exp {
                w.violate("C12", "R12b", "R12b|policy-bytes-differ".into(), format!("HTLC #{u} failed with {} but the configured policy encodes as {}", hex::encode(b), hex::encode(&exp)));
            }
        }
    }

    match label {
        RefLabel::Continue => {
            w.stats.eval("R13a", in_window as u64);
            if kind != AnsKind::Continue {
                w.violate("C13", "R13a", format!("R13a|non-trampoline-answered-{}", ans_name(&kind)), format!("non-trampoline HTLC #{u} answered {}", short(&json)));
                w.stats.eval("R10", 10);
                w.violate("C10", "R10", format!("R10|continue-expected-got-{}", ans_name(&kind)), format!("HTLC #{u} must not be treated as trampoline; answered {}", short(&json)));
            } else {
                w.stats.eval("R10", 0);
                check_r13d(w, u, &json);
            }
        }
        RefLabel::NotTramp => {
            w.stats.eval("R10", 1);
            match kind {
                AnsKind::Continue | AnsKind::Fail(_) if in_window => {}
                _ => w.violate("C10", "R10", format!("R10|not-trampoline-got-{}", ans_name(&kind)), format!("HTLC #{u} must not be treated as trampoline (continue / immediate fail); got {} in_window={in_window}", short(&json))),
            }
        }
        RefLabel::FailClassify => {
            w.stats.eval("R10", 2);
            match &kind {
                AnsKind::Fail(_) if in_window => {}
                _ => w.violate("C10", "R10", format!("R10|self-hint-got-{}", ans_name(&kind)), format!("HTLC #{u} has the local node as last route-hint hop (disallowed) and must be failed at once; got {}", short(&json))),
            }
        }
        RefLabel::Undecodable => {}
        RefLabel::Tramp { .. } => {
            w.stats.eval("R10", 3);
            if kind == AnsKind::Continue {
                w.violate("C10", "R10", "R10|trampoline-answered-continue".into(), format!("well-formed trampoline HTLC #{u} answered continue"));
            }
            if let Some(i) = own {
                on_tramp_answer(w, u, i, &kind, now);
            }
        }
    }
}

fn ans_name(k: &AnsKind) -> &'static str {
    match k {
        AnsKind::Continue => "continue",
        AnsKind::Fail(_) => "fail",
        AnsKind::Resolve(_) => "resolve",
        AnsKind::Undecodable => "undecodable",
        AnsKind::Malformed => "malformed",
    }
}

fn on_tramp_answer(w: &mut World, u: usize, i: usize, kind: &AnsKind, now: u64) {
    let hex_ = w.hashes[i].hex.clone();
    let (pend, comp, _) = w.node.live_parts(&hex_);
    let payrun = w.node.pay_running(&hex_);
    let set = w.sets[i].clone();
    let same_set = w.htlcs[u].set_id == set.set_id;
    match kind {
        AnsKind::Fail(bytes) => {
            // ---- R02
            let rec = w.rec(i);
            let ctx = parts_ctx(w, i) | (rec.tag() << 8) | ((set.paid as u64) << 10) | ((bytes.get(1).copied().unwrap_or(0) as u64) << 12) | ((w.lifetime.min(3) as u64) << 20);
            w.stats.eval("R02", ctx);
            if pend > 0 || comp > 0 || payrun {
                let cause = last_cause(w, i);
                w.violate(
                    "C02",
                    "R02",
                    format!("R02|{cause}|Fail|pending={}|complete={}|payrun={}", (pend > 0) as u8, (comp > 0) as u8, payrun as u8),
                    format!("HTLC #{u} for {hex_} failed ({}) while pending={pend} complete={comp} pay_running={payrun}", hex::encode(bytes)),
                );
            }
            // ---- R03d: HTLCs counted for a pay stay held until its fate is known
            if w.htlcs[u].funding_pay.is_some() {
                w.stats.eval("R03d", parts_ctx(w, i));
                if pend > 0 || comp > 0 || payrun {
                    w.violate("C03", "R03d", format!("R03d|funding-htlc-released|pending={}|complete={}|payrun={}", (pend > 0) as u8, (comp > 0) as u8, payrun as u8), format!("HTLC #{u} was counted for pay({hex_}) and is failed while pending={pend} complete={comp} pay_running={payrun}"));
                }
            }
            if same_set {
                // ---- R12c
                if let (Some(r), Some(first)) = (set.first_rejecting, set.first) {
                    if !set.faulted && !w.cfg.mpp_timeout.is_zero() && first == u {
                        let exp = policy_failure(&w.cfg);
                        w.stats.eval("R12c", (r == "expiry") as u64);
                        if bytes != &exp {
                            w.violate("C12", "R12c", format!("R12c|first-htlc-{r}-not-201a"), format!("first HTLC #{u} fails the {r} test but was answered {}", hex::encode(bytes)));
                        }
                    }
                }
                // ---- R11
                let no_attempt = set.rec_at_first == Some(Rec::Free) && !set.live_at_first && !set.paid;
                if no_attempt && !set.ever_funded && set.rejected_by.is_none() && !set.faulted {
                    let mpp = w.cfg.mpp_timeout.as_millis() as u64;
                    w.stats.eval("R11a", (bytes[..] == [0x20, 25]) as u64);
                    if bytes[..] != [0x20, 25] {
                        w.violate("C11", "R11a", "R11a|incomplete-set-wrong-failure".into(), format!("incomplete set of {hex_} answered {} instead of 2019", hex::encode(bytes)));
                    } else if let Some(t0) = set.read_done_ms {
                        w.stats.eval("R11b", (mpp / 1000).min(4000));
                        if now + 2 < t0 + mpp {
                            w.violate("C11", "R11b", "R11b|failed-before-timeout".into(), format!("incomplete set of {hex_} failed at {now} ms, before read-done {t0} + mpp {mpp}"));
                        }
                        w.stats.eval("R11c", (mpp / 1000).min(4000));
                        w.stats.eval("R06e", (mpp / 1000).min(4000));
                        if now > t0 + mpp + 5 {
                            w.violate("C11", "R11c", "R11c|failed-late".into(), format!("incomplete set of {hex_} failed at {now} ms, later than read-done {t0} + mpp {mpp} + tol"));
                            // the last clause of C06 is the same bound
                            w.violate("C06", "R06e", "R06e|answered-later-than-one-mpp-timeout-after-the-state-read".into(), format!("incomplete set of {hex_} answered at {now} ms; its stored state was read at {t0} ms and the MPP timeout is {mpp} ms"));
                        }
                    }
                }
                // restart path: stored Pending whose payment turned out dead, never funded anew
                if set.rec_at_first == Some(Rec::Pending) && !set.paid && !set.ever_funded && set.rejected_by.is_none() && !set.faulted && bytes[..] == [0x20, 25] {
                    if let Some(t_idle) = set.last_reply_ms {
                        let mpp = w.cfg.mpp_timeout.as_millis() as u64;
                        w.stats.eval("R11d", set.aged_secs.unwrap_or(0).min(4000));
                        if now > t_idle + mpp + 5 {
                            w.violate("C11", "R11d", "R11d|restart-grants-more-than-one-timeout".into(), format!("replayed set of {hex_} failed at {now} ms > idle {t_idle} + mpp {mpp}"));
                        }
                        if let Some(a) = set.aged_secs {
                            let wall = set.wall_start.map(|s| s.elapsed().as_millis() as u64).unwrap_or(0);
                            if wall > 500 {
                                w.inconclusive.push("R11d: run took >0.5s wall".into());
                            } else {
                                let expect = mpp.saturating_sub(a * 1000);
                                if now + 1000 + wall + 5 < t_idle + expect {
                                    w.violate("C11", "R11d", "R11d|aged-attempt-failed-too-early".into(), format!("replayed set failed at {now}, expected about {} (age {a}s)", t_idle + expect));
                                }
                                if now > t_idle + expect + 1000 + wall + 5 {
                                    w.violate("C11", "R11d", "R11d|aged-attempt-failed-too-late".into(), format!("replayed set failed at {now}, expected about {} (age {a}s)", t_idle + expect));
                                }
                            }
                        }
                    }
                }
            }
        }
        AnsKind::Resolve(_) => {
            w.stats.eval("R03d", 1);
            // R12c: a first HTLC failing the fee/expiry test must get the 201a failure
            if same_set {
                if let (Some(r), Some(first)) = (set.first_rejecting, set.first) {
                    if !set.faulted && !w.cfg.mpp_timeout.is_zero() && first == u {
                        w.stats.eval("R12c", 2);
                        w.violate("C12", "R12c", format!("R12c|first-htlc-{r}-resolved"), format!("first HTLC #{u} fails the {r} test but was resolved"));
                    }
                }
            }
            // R07c: a rejected set must be failed
            if same_set && set.rejected_by.is_some() {
                let (ru, r) = set.rejected_by.unwrap();
                w.violate("C07", "R07c", format!("R07c|rejected-set-resolved|{r}"), format!("HTLC #{u} resolved although HTLC #{ru} rejected the incomplete set ({r})"));
            }
        }
        _ => {}
    }
}

/// kinds of the last node-side events for hash i (for violation signatures)
fn last_cause(w: &World, i: usize) -> String {
    let mut v: Vec<String> = vec![];
    for c in w.calls.iter().rev().filter(|c| c.hidx == Some(i) && c.lifetime == w.lifetime).take(3) {
        let st = match &c.state {
            CallState::Issued => "issued".to_string(),
            CallState::Blocked => "blocked".to_string(),
            CallState::Ready(Ok(_)) | CallState::Done if !c.faulted => "ok".to_string(),
            _ => "fault".to_string(),
        };
        v.push(format!("{}:{}", c.method, st));
    }
    v.reverse();
    v.join(">")
}

fn check_r13d(w: &mut World, u: usize, json: &Value) {
    let payload = match json.get("payload").and_then(|v| v.as_str()) {
        None => {
            w.stats.eval("R13d", 0);
            return;
        }
        Some(s) => hex::decode(s).unwrap_or_default(),
    };
    if w.htlcs[u].spec.raw_payload_hex.is_some() {
        return;
    }
    let recs = crate::gen::payload_records(&w.htlcs[u].spec);
    let expect: Vec<crate::gen::Rec> = recs.into_iter().filter(|r| r.0 != 16).collect();
    let exp_bytes = crate::gen::enc_stream(&expect);
    w.stats.eval("R13d", 1 + expect.len().min(12) as u64);
    if payload != exp_bytes {
        w.violate("C13", "R13d", "R13d|payload-rewrite-not-minimal".into(), format!("HTLC #{u} continue payload {} != input minus record 16 {}", hex::encode(&payload), hex::encode(&exp_bytes)));
    }
}

/// After the plugin has run to quiescence following one environment step.
pub fn after_window(w: &mut World, tracked: Option<Option<usize>>) {
    // R06d: the table lock is free at quiescence
    if let Some(t) = tracked {
        w.stats.eval("R06d", t.map(|n| n.min(7) as u64).unwrap_or(99));
        if t.is_none() {
            w.violate("C06", "R06d", "R06d|table-lock-held-at-quiescence".into(), "a task is suspended while holding the payments table lock".into());
        }
    }
    // R08a/b/d: every node state is a possible crash image
    for i in 0..w.hashes.len() {
        let hex_ = w.hashes[i].hex.clone();
        let (pend, comp, _) = w.node.live_parts(&hex_);
        let payrun = w.node.pay_running(&hex_);
        let rec = w.rec(i);
        if pend > 0 || comp > 0 || payrun {
            w.stats.eval("R08a", rec.tag() | ((pend.min(1) as u64) << 2) | ((comp.min(1) as u64) << 3) | ((payrun as u64) << 4));
            if !matches!(rec, Rec::Pending | Rec::Succeeded(_)) {
                w.violate("C08", "R08a", format!("R08a|rec={}|pending={}|complete={}|payrun={}", rec.name(), (pend > 0) as u8, (comp > 0) as u8, payrun as u8), format!("durable record for {hex_} reads {} while pending={pend} complete={comp} pay_running={payrun}", rec.name()));
            }
        }
        if let Rec::Succeeded(p) = &rec {
            let ok = crate::gen::sha256_of(p) == w.hashes[i].hash;
            w.stats.eval("R08b", ok as u64);
            if !ok {
                w.violate("C08", "R08b", "R08b|succeeded-with-wrong-preimage".into(), format!("record for {hex_} holds a preimage that does not hash to it"));
            }
        }
    }
    // R07a/b: one resolution for the whole set
    let answered = std::mem::take(&mut w.window_answers);
    for i in 0..w.hashes.len() {
        let h = w.hashes[i].hash;
        let mine: Vec<usize> = answered
            .iter()
            .copied()
            .filter(|u| w.htlcs[*u].spec.htlc_hash == h && matches!(w.htlcs[*u].spec.label, RefLabel::Tramp { .. }))
            .collect();
        if mine.is_empty() {
            continue;
        }
        let first = w.htlcs[mine[0]].answer.as_ref().map(|a| a.json.clone());
        let same = mine.iter().all(|u| w.htlcs[*u].answer.as_ref().map(|a| a.json.clone()) == first);
        w.stats.eval("R07a", mine.len().min(9) as u64);
        if !same {
            w.violate("C07", "R07a", "R07a|answers-differ".into(), format!("HTLCs {mine:?} of {} resolved together with different answers", w.hashes[i].hex));
        }
        let left = w.held(i);
        w.stats.eval("R07b", left.len().min(9) as u64 | ((mine.len().min(9) as u64) << 4));
        if !left.is_empty() {
            w.violate("C07", "R07b", "R07b|part-of-set-left-unanswered".into(), format!("HTLCs {mine:?} of {} were answered but {left:?} of the same set stay held", w.hashes[i].hex));
        }
        // R07c: rejected sets end in Fail
        if let Some((ru, r)) = w.sets[i].rejected_by {
            for u in &mine {
                if w.htlcs[*u].set_id == w.sets[i].set_id {
                    if let Some(Answer { kind: AnsKind::Fail(_), .. }) = &w.htlcs[*u].answer {
                        w.stats.eval("R07c", 2);
                    } else if !matches!(w.htlcs[*u].answer, Some(Answer { kind: AnsKind::Resolve(_), .. })) {
                        w.violate("C07", "R07c", format!("R07c|rejected-set-not-failed|{r}"), format!("HTLC #{u} not failed although #{ru} rejected the set"));
                    }
                }
            }
        }
        if left.is_empty() {
            w.sets[i].active = false;
        }
    }
    // set tracking that depends on step ends: funded / early snapshot
    for i in 0..w.hashes.len() {
        if !w.sets[i].active {
            continue;
        }
        let held = w.held(i);
        if held.is_empty() {
            continue;
        }
        let a = match w.sets[i].first.and_then(|f| match &w.htlcs[f].spec.label {
            RefLabel::Tramp { amount_msat, .. } => Some(*amount_msat),
            _ => None,
        }) {
            Some(a) => a,
            None => continue,
        };
        let sum: u128 = held.iter().map(|k| w.htlcs[*k].spec.amount_msat as u128).sum();
        if w.fee_ok(sum, a) {
            w.sets[i].ever_funded = true;
            if w.sets[i].read_done_ms.is_some() && w.sets[i].early_snap.is_none() && !w.sets[i].paid {
                let mut m = held.iter().map(|k| w.htlcs[*k].spec.cltv_expiry).min().unwrap();
                // two parts of this set were delivered at the same instant in this window: the
                // lifecycle may have taken its snapshot between them, i.e. without the one handled
                // later, if the set was funded without it. Use the loosest possible snapshot.
                if let Some((pu, pv)) = w.window_pair {
                    for x in [pu, pv] {
                        if !held.contains(&x) {
                            continue;
                        }
                        let rest: Vec<usize> = held.iter().copied().filter(|k| *k != x).collect();
                        let rsum: u128 = rest.iter().map(|k| w.htlcs[*k].spec.amount_msat as u128).sum();
                        if !rest.is_empty() && w.fee_ok(rsum, a) {
                            m = m.max(rest.iter().map(|k| w.htlcs[*k].spec.cltv_expiry).min().unwrap());
                        }
                    }
                }
                w.sets[i].early_snap = Some((m, w.told_height));
            }
        }
    }
    w.window_pair = None;
}

/// Non-trampoline HTLC delivered at the previous step must be answered by now, with no
/// RPC issued in its window (getinfo of the block watcher excepted).
pub fn check_immediate(w: &mut World, u: usize, tracked_after: Option<Option<usize>>) {
    let label = w.htlcs[u].spec.label.clone();
    let must = matches!(label, RefLabel::Continue | RefLabel::NotTramp | RefLabel::FailClassify);
    if !must {
        return;
    }
    let rule = if label == RefLabel::Continue { "R13a" } else { "R10" };
    let prop = if label == RefLabel::Continue { "C13" } else { "C10" };
    if w.htlcs[u].state == HState::Delivered && w.panics.is_empty() {
        w.violate(prop, rule, format!("{rule}|not-answered-at-once"), format!("HTLC #{u} ({label:?}) not answered in its delivery window"));
    }
    let calls: Vec<String> = w
        .window_calls
        .iter()
        .filter_map(|id| w.calls.iter().find(|c| c.id == *id))
        .filter(|c| c.method != "getinfo")
        .map(|c| c.method.clone())
        .collect();
    w.stats.eval("R13b", calls.len() as u64);
    if !calls.is_empty() {
        let (p, r) = if label == RefLabel::Continue { ("C13", "R13b") } else { ("C10", "R10") };
        w.violate(p, r, format!("{r}|rpc-for-non-trampoline|{}", calls[0]), format!("HTLC #{u} ({label:?}) caused RPC call(s) {calls:?}"));
    }
    if let (Some(Some(a)), Some(b)) = (tracked_after, w.htlcs[u].tracked_before) {
        w.stats.eval("R13c", a as u64);
        if a > b {
            w.violate("C13", "R13c", "R13c|state-retained".into(), format!("HTLC #{u} ({label:?}) left table size {a} > {b}"));
        }
    }
}

/// Drain-time checks (environment fully drained, clock past the cap).
pub fn at_drain(w: &mut World, tracked: Option<Option<usize>>) {
    let life = w.lifetime;
    let unanswered: Vec<usize> = w
        .htlcs
        .iter()
        .enumerate()
        .filter(|(_, x)| x.state == HState::Delivered && x.lifetime == life)
        .map(|(k, _)| k)
        .collect();
    w.stats.eval("R06c", unanswered.len().min(9) as u64);
    if !unanswered.is_empty() && w.panics.is_empty() {
        let lab: Vec<String> = unanswered.iter().map(|u| format!("{:?}", std::mem::discriminant(&w.htlcs[*u].spec.label))).collect();
        let _ = lab;
        let cause = unanswered
            .first()
            .and_then(|u| w.hashes.iter().position(|h| h.hash == w.htlcs[*u].spec.htlc_hash))
            .map(|i| last_cause(w, i))
            .unwrap_or_default();
        w.violate("C06", "R06c", format!("R06c|unanswered-after-drain|{cause}"), format!("HTLCs {unanswered:?} unanswered although the environment is drained and the clock is past every timeout"));
    }
    if let Some(t) = tracked {
        if unanswered.is_empty() && w.panics.is_empty() {
            w.stats.eval("R06c-table", t.map(|n| n as u64).unwrap_or(99));
            if t != Some(0) {
                w.violate("C06", "R06c", "R06c|table-not-empty-after-drain".into(), format!("payments table holds {t:?} entries with no HTLC outstanding"));
            }
        }
    }
    // R02b: a hash with a complete part must not have ended Failed/unanswered
    for i in 0..w.hashes.len() {
        let hex_ = w.hashes[i].hex.clone();
        let (_, comp, _) = w.node.live_parts(&hex_);
        if comp == 0 {
            continue;
        }
        let h = w.hashes[i].hash;
        for u in 0..w.htlcs.len() {
            if w.htlcs[u].spec.htlc_hash != h || !matches!(w.htlcs[u].spec.label, RefLabel::Tramp { .. }) || w.htlcs[u].funding_pay.is_none() {
                continue;
            }
            w.stats.eval("R02b", 1);
        }
    }
}
