//! Evidence files (/verif/evidence/<id>.json, schema /root/.vp/EVIDENCE.schema.json).
use serde_json::{json, Value};

pub struct Evidence {
    pub property_id: String,
    pub tier: String,
    pub seed: u64,
    pub level: String,
    pub coverage: Value,
    pub assumptions: Vec<String>,
    pub wall_s: f64,
    pub violations: u64,
}

impl Evidence {
    pub fn write(&self, path: &str) {
        let v = json!({
            "property_id": self.property_id,
            "tier": self.tier,
            "seed": self.seed,
            "level": self.level,
            "coverage": self.coverage,
            "assumptions": self.assumptions,
            "wall_s": self.wall_s,
            "violations": self.violations,
        });
        if let Some(dir) = std::path::Path::new(path).parent() {
            let _ = std::fs::create_dir_all(dir);
        }
        let tmp = format!("{path}.tmp");
        std::fs::write(&tmp, serde_json::to_string_pretty(&v).unwrap()).expect("write evidence");
        std::fs::rename(&tmp, path).expect("rename evidence");
    }
}
