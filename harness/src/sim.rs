//! Manager-level simulation: the real HtlcManager + ClnDatastore + PayPaymentProvider +
//! BlockWatcher under a paused tokio clock, one environment step at a time, the plugin run
//! to quiescence between steps (DESIGN 2.3).

use crate::block_watcher::{BlockProvider, BlockWatcher};
use crate::email::{NotificationService, NotifyPaymentFailedRequest};
use crate::gen::{request_json, RefLabel};
use crate::htlc_manager::{HtlcManager, HtlcManagerParams};
use crate::messages::{BlockAdded, HtlcAcceptedRequest, TrampolineRoutingPolicy};
use crate::monitors;
use crate::node::{Node, PartStatus, RpcErr};
use crate::payment_provider::PayPaymentProvider;
use crate::plan::{gen_plan, Plan, Profile};
use crate::prng::{mix, Rng};
use crate::rpc::Rpc;
use crate::store::ClnDatastore;
use crate::world::*;
use futures::FutureExt;
use serde_json::{json, Value};
use std::cell::RefCell;
use std::sync::{Arc, Mutex};
use std::time::Duration;

pub type Mgr = HtlcManager<BlockWatcher, SimNotify, PayPaymentProvider<Rpc>, ClnDatastore>;

pub struct SimNotify {
    pub world: Shared,
}

#[async_trait::async_trait]
impl NotificationService for SimNotify {
    async fn notify_payment_failed(&self, req: NotifyPaymentFailedRequest) {
        let mut w = lock(&self.world);
        let dest = req.destination.to_string();
        w.ev(|| format!("NOTIFY failed dest={dest}"));
        // R10 (payee): the payee reported for a failed payment is the key the invoice's
        // signature verifies against (reference: how the invoice was signed)
        let want = w.htlcs.iter().find_map(|h| match &h.spec.label {
            crate::gen::RefLabel::Tramp { bolt11, payee, .. } if *bolt11 == req.invoice => Some(*payee),
            _ => None,
        });
        if let Some(p) = want {
            w.stats.eval("R10-payee", (p == req.destination) as u64);
            if p != req.destination {
                w.violate("C10", "R10", "R10|payee-differs-from-signing-key".into(), format!("payment failure for invoice reported payee {dest}, the signature verifies against {p}"));
            }
        }
        w.notified.push((req.invoice.clone(), dest));
    }
}

thread_local! {
    pub static PANICS: RefCell<Vec<String>> = RefCell::new(vec![]);
}

pub fn install_panic_hook() {
    std::panic::set_hook(Box::new(|info| {
        let loc = info.location().map(|l| format!("{}:{}", l.file(), l.line())).unwrap_or_default();
        let msg = if let Some(s) = info.payload().downcast_ref::<&str>() {
            s.to_string()
        } else if let Some(s) = info.payload().downcast_ref::<String>() {
            s.clone()
        } else {
            "?".into()
        };
        // first frame inside the plugin's sources
        let bt = std::backtrace::Backtrace::force_capture().to_string();
        let frame = bt
            .lines()
            .filter(|l| l.contains("repo_src/"))
            .map(|l| l.trim().trim_start_matches("at ").to_string())
            .next()
            .unwrap_or_default();
        let frame = frame.rsplit("repo_src/").next().unwrap_or("").to_string();
        let msg: String = msg.chars().take(160).collect();
        PANICS.with(|p| p.borrow_mut().push(format!("{loc}|{frame}|{msg}")));
    }));
}

#[derive(Clone, Debug, PartialEq)]
pub enum PayOutcome {
    Complete,
    Pending,
    Failed,
    FailedWarn,
    RpcError(i32),
}

#[derive(Clone, Debug)]
enum Step {
    Deliver(usize),
    Apply(u64, bool),
    Reply(u64),
    Fault(u64, &'static str),
    AddPart(u64),
    ResolvePart(usize, bool),
    FinishPay(u64, PayOutcome),
    Block(u32, u8),
    Process(usize),
    Advance(u64),
    Crash,
    WaitTimeout(u64),
}

/// Canonical (deterministic) scheduling with one crash and/or one write fault placed at a
/// chosen position: the fault-enumeration mode (DESIGN 2.3).
#[derive(Clone, Debug)]
pub struct Script {
    /// crash instead of executing environment step number k (global step counter)
    pub crash_at_step: Option<u64>,
    /// inject a fault on the k-th datastore write of the run ("reject" | "lost-reply")
    pub fault_at_write: Option<(u64, &'static str)>,
    /// how the pay command ends
    pub pay_outcome: PayOutcome,
    /// pay ends before its part resolves (only for non-Complete outcomes)
    pub finish_before_resolve: bool,
    /// how pending parts resolve
    pub part_completes: bool,
    /// apply an RPC's effect and deliver its reply in one step, or in two
    pub fuse: bool,
    /// deliver planned HTLCs before answering outstanding RPCs
    pub deliver_first: bool,
    /// C14: freeze hash `hidx` at its n-th call of `method` (or at its "timer"): that call and
    /// everything else concerning the hash is withheld; HTLCs of other hashes are only
    /// delivered once the hash is frozen.
    pub freeze: Option<Freeze>,
}

#[derive(Clone, Debug)]
pub struct Freeze {
    pub hidx: usize,
    pub method: &'static str,
    pub nth: u64,
    /// pay outcome used for the frozen hash itself
    pub own_outcome: PayOutcome,
    pub own_before: bool,
}

#[derive(Clone, Debug)]
pub struct CallRec {
    pub hidx: Option<usize>,
    pub method: String,
    pub params: String,
    pub reply: String,
}

#[derive(Clone, Debug)]
pub struct AnsRec {
    pub htlc: usize,
    pub hidx: Option<usize>,
    pub json: String,
    pub rel_ms: u64,
}

pub struct RunOpts {
    pub seed: u64,
    pub profile: Profile,
    pub thorough: bool,
    pub log_events: bool,
    pub script: Option<Script>,
    pub plan_override: Option<Box<dyn FnOnce(&mut Rng) -> Plan>>,
    /// property under check: a run stops early only on a violation of this property (others are
    /// recorded as cross observations and the run goes on)
    pub target: Option<String>,
}

pub struct RunResult {
    pub seed: u64,
    pub violations: Vec<Violation>,
    pub panics: Vec<String>,
    pub stats: Stats,
    pub trace_sig: u64,
    pub steps: u64,
    pub events: Vec<Ev>,
    pub crash_positions: Vec<u64>,
    pub fault_positions: Vec<(u64, &'static str)>,
    pub inconclusive: Vec<String>,
    pub n_writes: u64,
    pub summary: String,
    pub lifetimes: u32,
    pub call_log: Vec<CallRec>,
    pub answers: Vec<AnsRec>,
    pub hash_hex: Vec<String>,
}

enum End {
    Crash,
    Done,
}

struct Life {
    mgr: Arc<Mutex<Option<Arc<Mgr>>>>,
    watcher: Arc<Mutex<Option<Arc<BlockWatcher>>>>,
}

fn tracked(mgr: &Option<Arc<Mgr>>) -> Option<Option<usize>> {
    #[cfg(feature = "verif-hooks")]
    {
        return mgr.as_ref().map(|m| m.verif_tracked_payments());
    }
    #[allow(unreachable_code)]
    {
        let _ = mgr;
        None
    }
}

pub fn run_one(opts: RunOpts) -> RunResult {
    // yields in front of tokio mutex acquisitions inside the code under test (vtokio): none in two
    // runs out of three and in scripted (canonical) runs
    {
        let mut r = Rng::new(mix(opts.seed, 5151));
        let pct = if opts.script.is_some() || std::env::var_os("VMON_NO_PREEMPT").is_some() || r.below(3) != 0 { 0 } else { *r.pick(&[15u64, 40]) };
        tokio::chaos::configure(mix(opts.seed, 5152), pct);
    }
    let opts_scripted = opts.script.is_some();
    let mut rng = Rng::new(opts.seed);
    let plan = match opts.plan_override {
        Some(f) => f(&mut rng),
        None => gen_plan(&mut rng, &opts.profile, opts.thorough),
    };
    let n_hashes = plan.hashes.len();
    let mut node = Node::new(plan.cfg.start_height, &plan.local_pk.to_string());
    node.first_partid_zero = opts.seed % 3 == 0;
    let hidx_of = |spec: &crate::gen::HtlcSpec| plan.hashes.iter().position(|h| h.hash == spec.htlc_hash);
    let htlcs: Vec<HtlcRt> = plan
        .htlcs
        .iter()
        .map(|s| HtlcRt {
            hidx: hidx_of(s),
            spec: s.clone(),
            state: HState::Planned,
            lifetime: 0,
            delivered_step: 0,
            delivered_ms: 0,
            deliveries: 0,
            answer: None,
            set_id: 0,
            funding_pay: None,
            is_probe: false,
            calls_before: 0,
            tracked_before: None,
        })
        .collect();
    let stall_pct = if opts.script.is_some() { 0 } else { *rng.pick(&[0u64, 0, 10, 25]) };
    let world = World {
        cfg: plan.cfg.clone(),
        node,
        hashes: plan.hashes,
        htlcs,
        calls: vec![],
        sets: vec![SetRt::default(); n_hashes],
        next_call_id: 1,
        lifetime: 0,
        step: 0,
        vt_base_ms: 0,
        life_start: None,
        told_height: 0,
        events: vec![],
        log_events: opts.log_events,
        violations: vec![],
        stats: Stats::default(),
        panics: vec![],
        trace_sig: 0,
        window_answers: vec![],
        window_calls: vec![],
        faults_done: 0,
        crashes_done: 0,
        stall_pct,
        fuse_pct: if opts.script.is_some() || plan.cfg.probe || std::env::var_os("VMON_NO_PREEMPT").is_some() || Rng::new(mix(opts.seed, 4242)).below(5) != 0 { 0 } else { 60 },
        fused: false,
        window_pair: None,
        suppressed: 0,
        cooperative: false,
        aged: None,
        aged_hashes: vec![],
        same_process_probes: 0,
        part_weight: *rng.pick(&[25u64, 25, 3]),
        fault_weight: if plan.cfg.max_faults > 2 { 12 } else { *rng.pick(&[2u64, 2, 12]) },
        last_fault_method: None,
        target: opts.target.clone(),
        rng: Rng::new(mix(opts.seed, 77)),
        rec_cache: vec![None; n_hashes],
        notified: vec![],
        crash_positions: vec![],
        fault_positions: vec![],
        inconclusive: vec![],
        wall_start: std::time::Instant::now(),
    };
    let shared: Shared = Arc::new(Mutex::new(world));
    let local_pk = plan.local_pk;
    let mut sched_rng = Rng::new(mix(opts.seed, 99));
    let mut lifetimes = 0;
    let mut probes_left = if plan.cfg.probe && !plan.cfg.probe_same_process { 3 } else { 0 };
    let mut probe_phase = false;
    loop {
        lifetimes += 1;
        let mut sb = [0u8; 32];
        sb[..8].copy_from_slice(&mix(opts.seed, lifetimes as u64).to_le_bytes());
        let rt = tokio::runtime::Builder::new_current_thread()
            .enable_time()
            .start_paused(true)
            .rng_seed(tokio::runtime::RngSeed::from_bytes(&sb))
            .build()
            .unwrap();
        let end = rt.block_on(lifetime(shared.clone(), local_pk, &mut sched_rng, &opts.script, probe_phase));
        drop(rt);
        PANICS.with(|p| {
            let mut w = lock(&shared);
            for x in p.borrow_mut().drain(..) {
                w.panics.push(x);
            }
        });
        let mut w = lock(&shared);
        // end of lifetime: account virtual time, kill running pays, drop outstanding calls
        w.vt_base_ms = w.now_ms();
        w.life_start = None;
        for c in w.calls.iter_mut() {
            c.tx = None;
            if c.state != CallState::Done {
                c.state = CallState::Done;
            }
        }
        match end {
            End::Crash => {
                w.node.crash();
                w.ev(|| "CRASH".to_string());
                let life = w.lifetime;
                for h in w.htlcs.iter_mut() {
                    if h.lifetime == life && matches!(h.state, HState::Delivered | HState::Answered) {
                        h.state = HState::Planned;
                    }
                }
                for s in w.sets.iter_mut() {
                    s.active = false;
                }
                if let Some(a) = w.cfg.age_pending_secs {
                    if w.age_pending_records(a) {
                        w.aged = Some(a);
                        w.aged_hashes = (0..w.hashes.len()).map(|i| (i, a)).collect();
                        w.ev(|| format!("AGED stored pending records by {a}s"));
                    } else {
                        w.aged = None;
                        w.aged_hashes.clear();
                    }
                }
                w.lifetime += 1;
                if w.lifetime > 8 {
                    break;
                }
            }
            End::Done => {
                let capped = w.inconclusive.iter().any(|x| x == "step cap reached");
                if capped {
                    break;
                }
                if probes_left > 0 && !w.target_violated() {
                    // C09: restart, then a fresh fully funded probe set for every hash.
                    // "An arbitrary later retry": in aged mode the wall clock has moved on
                    // by more than the MPP timeout since the interrupted attempt.
                    if let Some(a) = w.cfg.probe_age_secs {
                        if w.age_pending_records(a) {
                            w.ev(|| format!("AGED stored pending records by {a}s before the probe"));
                        }
                    }
                    let done = crate::probe::add_probe(&mut w, 3 - probes_left);
                    probes_left -= 1;
                    if done {
                        if probe_phase {
                            crate::probe::judge(&mut w);
                        }
                        break;
                    }
                    probe_phase = true;
                    w.node.crash();
                    for s in w.sets.iter_mut() {
                        s.active = false;
                    }
                    w.lifetime += 1;
                    continue;
                }
                if probe_phase || w.same_process_probes > 0 {
                    crate::probe::judge(&mut w);
                }
                break;
            }
        }
    }
    let mut w = lock(&shared);
    // R06b: panics
    let panics = w.panics.clone();
    for p in &panics {
        let parts: Vec<&str> = p.splitn(3, '|').collect();
        let loc = parts.first().copied().unwrap_or("");
        if loc.starts_with("src/") && !loc.contains("repo_src") {
            w.inconclusive.push(format!("harness panic {p}"));
            continue;
        }
        let frame = parts.get(1).copied().unwrap_or("");
        let file_line = frame.split_whitespace().next().unwrap_or(frame).to_string();
        let site = if file_line.is_empty() { loc.rsplit('/').next().unwrap_or(loc).to_string() } else { file_line };
        w.stats.eval("R06b", 1);
        w.violate("C06", "R06b", format!("R06b|panic|{site}"), format!("panic in plugin code: {p}"));
    }
    if panics.is_empty() {
        w.stats.eval("R06b", 0);
    }
    let n_writes = w.calls.iter().filter(|c| c.method == "datastore").count() as u64;
    let summary = format!(
        "hashes={} htlcs={} calls={} parts={} lifetimes={} steps={}",
        w.hashes.len(),
        w.htlcs.len(),
        w.calls.len(),
        w.node.parts.len(),
        lifetimes,
        w.step
    );
    {
        let (points, yields) = tokio::chaos::counters();
        if points > 0 {
            *w.stats.evals.entry("LOCK-POINTS").or_insert(0) += points;
            *w.stats.evals.entry("LOCK-YIELDS").or_insert(0) += yields;
        }
        tokio::chaos::configure(0, 0);
    }
    RunResult {
        seed: opts.seed,
        violations: w.violations.clone(),
        panics,
        stats: std::mem::take(&mut w.stats),
        trace_sig: w.trace_sig,
        steps: w.step,
        events: std::mem::take(&mut w.events),
        crash_positions: w.crash_positions.clone(),
        fault_positions: w.fault_positions.clone(),
        inconclusive: w.inconclusive.clone(),
        n_writes,
        summary,
        lifetimes,
        call_log: if opts_scripted {
            w.calls
                .iter()
                .map(|c| CallRec {
                    hidx: c.hidx,
                    method: c.method.clone(),
                    params: c.params.to_string(),
                    reply: match &c.state {
                        CallState::Done => c.reply_log.clone().unwrap_or_default(),
                        s => format!("{s:?}").chars().take(40).collect(),
                    },
                })
                .collect()
        } else {
            vec![]
        },
        answers: if opts_scripted {
            w.htlcs
                .iter()
                .enumerate()
                .filter_map(|(k, h)| h.answer.as_ref().map(|a| AnsRec { htlc: k, hidx: h.hidx, json: a.json.to_string(), rel_ms: a.at_ms.saturating_sub(h.delivered_ms) }))
                .collect()
        } else {
            vec![]
        },
        hash_hex: w.hashes.iter().map(|h| h.hex.clone()).collect(),
    }
}

async fn quiesce() {
    tokio::time::sleep(Duration::from_millis(1)).await;
}

fn start_plugin(shared: &Shared, local_pk: secp256k1::PublicKey, life: &Life) {
    let (cfg, _) = {
        let w = lock(shared);
        (w.cfg.clone(), 0)
    };
    let shared = shared.clone();
    let mgr_slot = life.mgr.clone();
    let watcher_slot = life.watcher.clone();
    tokio::spawn(async move {
        let rpc = Arc::new(Rpc::with_transport(Arc::new(WorldTransport { world: shared.clone() })));
        let mut bw = BlockWatcher::new(Arc::clone(&rpc));
        let (_tx, rx) = tokio::sync::mpsc::channel(1);
        if bw.start(rx).await.is_err() {
            // the real main() exits when the first poll fails; the node would restart it
            lock(&shared).ev(|| "plugin start failed (getinfo)".to_string());
            return;
        }
        std::mem::forget(_tx);
        let bw = Arc::new(bw);
        let provider = Arc::new(PayPaymentProvider::new(Arc::clone(&rpc), cfg.payment_timeout, cfg.xpay));
        let store = Arc::new(ClnDatastore::new(Arc::clone(&rpc)));
        let mgr = HtlcManager::new(HtlcManagerParams {
            allow_self_route_hints: cfg.allow_self,
            block_provider: Arc::clone(&bw),
            cltv_delta: cfg.cltv_delta,
            local_pubkey: local_pk,
            mpp_timeout: cfg.mpp_timeout,
            notification_service: Arc::new(SimNotify { world: shared.clone() }),
            payment_provider: provider,
            routing_policy: TrampolineRoutingPolicy {
                cltv_expiry_delta: cfg.policy_delta,
                fee_base_msat: cfg.base,
                fee_proportional_millionths: cfg.ppm,
            },
            store,
        });
        *watcher_slot.lock().unwrap() = Some(bw);
        *mgr_slot.lock().unwrap() = Some(Arc::new(mgr));
    });
}

fn deliver(shared: &Shared, mgr: Arc<Mgr>, u: usize, tracked_before: Option<Option<usize>>, burn_left: Option<u32>) {
    let params = {
        let mut w = lock(shared);
        let height = w.node.height;
        let params = request_json(&w.htlcs[u].spec, height);
        let rel = w.htlcs[u].spec.cltv_expiry as i64 - height as i64;
        if let (RefLabel::Tramp { .. }, Some(i)) = (w.htlcs[u].spec.label.clone(), w.htlcs[u].hidx) {
            monitors::on_deliver_tramp(&mut w, u, i, rel);
        }
        let now = w.now_ms();
        let life = w.lifetime;
        let step = w.step;
        let h = &mut w.htlcs[u];
        h.state = HState::Delivered;
        h.lifetime = life;
        h.delivered_step = step;
        h.delivered_ms = now;
        h.deliveries += 1;
        h.answer = None;
        // a replayed HTLC (restart) that funded a pay in an earlier lifetime still funds it
        if h.deliveries <= 1 {
            h.funding_pay = None;
        }
        h.tracked_before = tracked_before.flatten();
        let lab = format!("{:?}", h.spec.label).chars().take(40).collect::<String>();
        w.ev(|| format!("DELIVER htlc#{u} amt={} exp={} label={lab}", params["htlc"]["amount_msat"], params["htlc"]["cltv_expiry"]));
        params
    };
    let shared = shared.clone();
    tokio::spawn(async move {
        let req: HtlcAcceptedRequest = match serde_json::from_value(params) {
            Ok(r) => r,
            Err(e) => {
                let mut w = lock(&shared);
                w.ev(|| format!("UNDECODABLE htlc#{u}: {e}"));
                let now = w.now_ms();
                let (step, lifetime) = (w.step, w.lifetime);
                w.htlcs[u].state = HState::Answered;
                w.htlcs[u].answer = Some(Answer { json: Value::Null, kind: AnsKind::Undecodable, step, at_ms: now, lifetime });
                if w.htlcs[u].spec.label != RefLabel::Undecodable {
                    w.inconclusive.push(format!("generated request #{u} rejected by the plugin's Deserialize: {e}"));
                }
                return;
            }
        };
        if let Some(left) = burn_left {
            crate::blocksim::burn(left).await;
        }
        let resp = mgr.handle_htlc(&req).await;
        let v = serde_json::to_value(&resp).unwrap_or(Value::Null);
        let mut w = lock(&shared);
        monitors::on_answer(&mut w, u, v);
    });
}

fn enabled_steps(w: &World, mgr_up: bool, script: &Option<Script>) -> Vec<(Step, u64)> {
    let mut v: Vec<(Step, u64)> = vec![];
    let scripted = script.is_some();
    if mgr_up {
        // next planned HTLC (plan order); plus any re-offered one
        let mut first = true;
        for (u, h) in w.htlcs.iter().enumerate() {
            if h.state == HState::Planned {
                // retry sets: the first HTLC waits until nothing of that hash is held any more,
                // the others until the first has been delivered
                match h.spec.gate {
                    crate::gen::Gate::None => {}
                    crate::gen::Gate::HashIdle => {
                        if h.deliveries == 0 {
                            let busy = h.hidx.map(|i| !w.held(i).is_empty() || w.htlcs.iter().any(|x| x.hidx == Some(i) && x.state == HState::Planned && x.spec.gate == crate::gen::Gate::None && x.deliveries == 0)).unwrap_or(false);
                            if busy {
                                continue;
                            }
                        }
                    }
                    crate::gen::Gate::After(uid) => {
                        if h.deliveries == 0 && w.htlcs.iter().any(|x| x.spec.uid == uid && x.deliveries == 0) {
                            continue;
                        }
                    }
                }
                let wgt = if first { 30 } else { 4 };
                first = false;
                v.push((Step::Deliver(u), wgt));
                if scripted && script.as_ref().map(|s| s.freeze.is_none()).unwrap_or(true) {
                    break;
                }
            }
        }
    }
    for c in w.calls.iter().filter(|c| c.lifetime == w.lifetime) {
        let slow = if c.stalled { 1 } else { 20 };
        match &c.state {
            CallState::Issued => {
                v.push((Step::Apply(c.id, false), 20 * slow / 20));
                if c.method != "pay" && c.method != "waitsendpay" {
                    v.push((Step::Apply(c.id, true), 25 * slow / 20));
                }
                if !scripted && w.faults_done < w.cfg.max_faults {
                    // some runs have a flaky node (faults 6x as likely)
                    let mut fw = w.fault_weight;
                    if w.cfg.max_faults > 2 && w.last_fault_method.as_deref() == Some(c.method.as_str()) {
                        // outage: the service that failed last keeps failing
                        fw *= 25;
                    }
                    if c.method == "datastore" && w.cfg.fault_tier >= 1 {
                        v.push((Step::Fault(c.id, "reject"), fw));
                        v.push((Step::Fault(c.id, "lost-reply"), fw));
                    }
                    if w.cfg.fault_tier >= 2 && matches!(c.method.as_str(), "listdatastore" | "listsendpays" | "waitsendpay" | "getinfo") && (c.method != "getinfo" || mgr_up) {
                        v.push((Step::Fault(c.id, "read-error"), fw));
                    }
                }
            }
            CallState::Ready(_) => v.push((Step::Reply(c.id), 30 * slow / 20 + 1)),
            // lightningd answers a waitsendpay that carries a timeout with error 200 when the
            // part is still pending after that time
            CallState::Blocked if !scripted && c.method == "waitsendpay" && c.params.get("timeout").map(|t| !t.is_null()).unwrap_or(false) => v.push((Step::WaitTimeout(c.id), 6)),
            _ => {}
        }
    }
    for p in w.node.pays.iter().filter(|p| p.running) {
        if p.parts_created < if w.cooperative { 1 } else { 3 } {
            v.push((Step::AddPart(p.id), if p.parts_created == 0 { 30 } else { 6 }));
        }
        let (pend, comp, _) = w.node.live_parts(&p.hash_hex);
        if w.cooperative {
            if comp > 0 {
                v.push((Step::FinishPay(p.id, PayOutcome::Complete), 25));
            }
            continue;
        }
        if !scripted {
            if comp > 0 {
                v.push((Step::FinishPay(p.id, PayOutcome::Complete), 25));
                v.push((Step::FinishPay(p.id, PayOutcome::FailedWarn), 2));
            }
            if p.parts_created > 0 || true {
                v.push((Step::FinishPay(p.id, PayOutcome::Failed), if pend == 0 && comp == 0 { 15 } else { 2 }));
                v.push((Step::FinishPay(p.id, PayOutcome::Pending), 3));
                v.push((Step::FinishPay(p.id, PayOutcome::FailedWarn), 2));
                v.push((Step::FinishPay(p.id, PayOutcome::RpcError(*[210, 205, 206, 207, -1].get((p.id % 5) as usize).unwrap())), 3));
            }
        }
    }
    for (k, p) in w.node.parts.iter().enumerate() {
        if p.status == PartStatus::Pending {
            let hi = w.hash_idx_of_hex(&p.hash_hex);
            let rec = hi.map(|i| w.hashes[i].recipient).unwrap_or(Recipient::FailAll);
            // some runs have sticky parts (they stay pending for long): more overlap of a live
            // part with whatever the plugin does next
            let pw = if w.cooperative || scripted { 25 } else { w.part_weight };
            match rec {
                Recipient::Settle => v.push((Step::ResolvePart(k, true), pw)),
                Recipient::FailAll => v.push((Step::ResolvePart(k, false), pw)),
                Recipient::Mixed => {
                    v.push((Step::ResolvePart(k, true), pw * 2 / 5 + 1));
                    v.push((Step::ResolvePart(k, false), pw * 3 / 5 + 1));
                }
            }
        }
    }
    for (u, h) in w.htlcs.iter().enumerate() {
        if h.state == HState::Answered && h.lifetime == w.lifetime {
            v.push((Step::Process(u), 10));
        }
    }
    if !scripted && w.cooperative {
        v.push((Step::Advance(1000), 3));
    }
    if !scripted && !w.cooperative {
        v.push((Step::Block(1, 0), 3));
        v.push((Step::Block(1, 1), 2));
        v.push((Step::Block(3, 2), 1));
        v.push((Step::Block(2, 3), 1));
        v.push((Step::Advance(1000), 3));
        v.push((Step::Advance(10_000), 2));
        v.push((Step::Advance(61_000), 2));
        if w.crashes_done < w.cfg.max_crashes {
            v.push((Step::Crash, 3));
        }
    }
    v
}

fn canonical_choice(w: &World, steps: &[(Step, u64)], sc: &Script) -> Option<Step> {
    if sc.crash_at_step == Some(w.step) && w.crashes_done == 0 && !w.cooperative {
        return Some(Step::Crash);
    }
    if let Some((k, kind)) = sc.fault_at_write {
        if w.faults_done == 0 && !w.cooperative {
            for c in w.calls.iter().filter(|c| c.method == "datastore" && c.state == CallState::Issued) {
                let ord = w.calls.iter().filter(|d| d.method == "datastore" && d.id < c.id).count() as u64;
                if ord == k {
                    return Some(Step::Fault(c.id, kind));
                }
            }
        }
    }
    // C14 freeze: withhold everything that concerns the frozen hash once it reached its point
    let mut frozen_now = false;
    let mut withheld_calls: Vec<u64> = vec![];
    let mut frozen_hex = String::new();
    if let Some(fz) = &sc.freeze {
        frozen_hex = w.hashes[fz.hidx].hex.clone();
        let mine: Vec<&Call> = w.calls.iter().filter(|c| c.hidx == Some(fz.hidx) && c.lifetime == w.lifetime).collect();
        if fz.method == "timer" {
            let read_done = mine.iter().any(|c| c.method == "listdatastore" && c.state == CallState::Done);
            frozen_now = read_done && mine.iter().all(|c| c.state == CallState::Done);
        } else {
            let target: Option<&&Call> = mine.iter().filter(|c| c.method == fz.method).nth(fz.nth as usize);
            if let Some(t) = target {
                frozen_now = true;
                withheld_calls = mine.iter().filter(|c| c.id >= t.id).map(|c| c.id).collect();
            }
        }
    }
    let is_withheld = |s: &Step| -> bool {
        if !frozen_now {
            return false;
        }
        match s {
            Step::Apply(id, _) | Step::Reply(id) => withheld_calls.contains(id),
            _ => false,
        }
    };
    let steps: Vec<(Step, u64)> = steps
        .iter()
        .filter(|(s, _)| !is_withheld(s))
        .filter(|(s, _)| {
            // other hashes' HTLCs wait until the frozen hash has reached its point
            if let (Some(fz), Step::Deliver(u)) = (&sc.freeze, s) {
                if w.htlcs[*u].hidx != Some(fz.hidx) && !frozen_now {
                    return false;
                }
            }
            true
        })
        .cloned()
        .collect();
    let steps = &steps[..];
    let find = |f: &dyn Fn(&Step) -> bool| steps.iter().map(|(s, _)| s).find(|s| f(s)).cloned();
    let deliver = find(&|s| matches!(s, Step::Deliver(_)));
    if sc.deliver_first {
        if let Some(d) = &deliver {
            return Some(d.clone());
        }
    }
    if let Some(r) = find(&|s| matches!(s, Step::Reply(_))) {
        return Some(r);
    }
    // oldest issued call
    let oldest = steps.iter().filter_map(|(s, _)| if let Step::Apply(id, _) = s { Some(*id) } else { None }).min();
    if let Some(id) = oldest {
        let m = w.calls.iter().find(|c| c.id == id).map(|c| c.method.clone()).unwrap_or_default();
        let fused = sc.fuse && m != "pay" && m != "waitsendpay";
        return Some(Step::Apply(id, fused));
    }
    if let Some(d) = deliver {
        return Some(d);
    }
    let (outcome0, before0, completes) = if w.cooperative { (PayOutcome::Complete, false, true) } else { (sc.pay_outcome.clone(), sc.finish_before_resolve, sc.part_completes) };
    for p in w.node.pays.iter().filter(|p| p.running) {
        let (mut outcome, mut before) = (outcome0.clone(), before0);
        if let Some(fz) = &sc.freeze {
            if p.hash_hex == frozen_hex {
                if frozen_now {
                    continue;
                }
                outcome = fz.own_outcome.clone();
                before = fz.own_before;
            }
        }
        if p.parts_created == 0 {
            return Some(Step::AddPart(p.id));
        }
        let (pend, comp, _) = w.node.live_parts(&p.hash_hex);
        if before && outcome != PayOutcome::Complete {
            return Some(Step::FinishPay(p.id, outcome));
        }
        if pend > 0 {
            let k = w.node.parts.iter().position(|x| x.hash_hex == p.hash_hex && x.status == PartStatus::Pending).unwrap();
            return Some(Step::ResolvePart(k, completes));
        }
        let out = match (&outcome, comp > 0) {
            (PayOutcome::Complete, true) => PayOutcome::Complete,
            (PayOutcome::Complete, false) => PayOutcome::Failed,
            (o, _) => o.clone(),
        };
        return Some(Step::FinishPay(p.id, out));
    }
    if let Some(k) = w.node.parts.iter().position(|x| x.status == PartStatus::Pending && !(sc.freeze.is_some() && x.hash_hex == frozen_hex)) {
        return Some(Step::ResolvePart(k, completes));
    }
    find(&|s| matches!(s, Step::Process(_)))
}

async fn lifetime(shared: Shared, local_pk: secp256k1::PublicKey, rng: &mut Rng, script: &Option<Script>, probe_phase: bool) -> End {
    {
        let mut w = lock(&shared);
        w.life_start = Some(tokio::time::Instant::now());
        w.told_height = 0;
        let l = w.lifetime;
        w.ev(|| format!("LIFETIME {l} start"));
    }
    let life = Life { mgr: Arc::new(Mutex::new(None)), watcher: Arc::new(Mutex::new(None)) };
    start_plugin(&shared, local_pk, &life);
    let mut idle_advanced_ms: u64 = 0;
    let mut last_delivered: Vec<usize> = vec![];
    loop {
        quiesce().await;
        let mgr = life.mgr.lock().unwrap().clone();
        let watcher = life.watcher.lock().unwrap().clone();
        let tr = tracked(&mgr);
        // collect panics of this window
        let had_panic = PANICS.with(|p| {
            let mut p = p.borrow_mut();
            if p.is_empty() {
                false
            } else {
                let mut w = lock(&shared);
                for x in p.drain(..) {
                    w.ev(|| format!("PANIC {x}"));
                    w.panics.push(x);
                }
                true
            }
        });
        let _ = had_panic;
        let steps = {
            let mut w = lock(&shared);
            // R20a passive: height used == max told
            if let Some(bw) = &watcher {
                if let Some(h) = tokio::chaos::quiet(|| bw.current_height().now_or_never()) {
                    let same = h == w.told_height;
                    w.stats.eval("R20a", same as u64);
                    if h != w.told_height {
                        let t = w.told_height;
                        w.violate("C20", "R20a", "R20a|height-not-max-told".into(), format!("plugin height {h} != max of heights told {t}"));
                    }
                }
            }
            for u in std::mem::take(&mut last_delivered) {
                monitors::check_immediate(&mut w, u, tr);
            }
            monitors::after_window(&mut w, tr);
            w.window_calls.clear();
            if script.is_none() && !w.violations.is_empty() {
                let stop = w.target_violated() || w.violations.len() >= 24;
                if stop {
                    return End::Done;
                }
            }
            if w.step >= w.cfg.max_steps as u64 {
                w.inconclusive.push("step cap reached".into());
                return End::Done;
            }
            enabled_steps(&w, mgr.is_some(), script)
        };
        // choose
        let choice: Option<Step> = match script {
            Some(sc) => {
                let w = lock(&shared);
                canonical_choice(&w, &steps, sc)
            }
            None => {
                let progress: Vec<&(Step, u64)> = steps.iter().filter(|(s, _)| !matches!(s, Step::Advance(_) | Step::Block(..) | Step::Crash)).collect();
                if progress.is_empty() {
                    None
                } else {
                    let wts: Vec<u64> = steps.iter().map(|(_, w)| *w).collect();
                    Some(steps[rng.weighted(&wts)].0.clone())
                }
            }
        };
        let step = match choice {
            Some(s) => {
                // the block watcher's periodic getinfo is not progress of any payment: it must
                // not keep a run with a stuck HTLC alive until the step cap
                let is_poll = match &s {
                    Step::Apply(id, _) | Step::Reply(id) => lock(&shared).calls.iter().any(|c| c.id == *id && c.method == "getinfo"),
                    _ => false,
                };
                if !is_poll {
                    idle_advanced_ms = 0;
                }
                s
            }
            None => {
                // nothing but time can make progress
                let (unanswered, mpp_ms, any_planned) = {
                    let w = lock(&shared);
                    let life = w.lifetime;
                    (
                        w.htlcs.iter().filter(|h| h.state == HState::Delivered && h.lifetime == life).count(),
                        w.cfg.mpp_timeout.as_millis() as u64,
                        w.htlcs.iter().any(|h| h.state == HState::Planned),
                    )
                };
                let cap = 10 * mpp_ms + 130_000;
                if mgr.is_none() && !any_planned {
                    return End::Done;
                }
                if (unanswered == 0 && mgr.is_some()) || idle_advanced_ms > cap || (mgr.is_none() && idle_advanced_ms > 200_000) {
                    let mut w = lock(&shared);
                    if mgr.is_some() {
                        monitors::at_drain(&mut w, tr);
                    } else if any_planned {
                        w.inconclusive.push("plugin never came up".into());
                    }
                    let _ = probe_phase;
                    // C09, same-process mode: probe without restarting (an in-memory wedge left
                    // by a failed write lasts for the life of the process)
                    if mgr.is_some() && w.cfg.probe && w.cfg.probe_same_process && w.same_process_probes < 3 && !w.target_violated() && !w.inconclusive.iter().any(|x| x == "step cap reached") {
                        if let Some(a) = w.cfg.probe_age_secs {
                            w.age_pending_records(a);
                        }
                        let round = w.same_process_probes;
                        w.same_process_probes += 1;
                        let done = crate::probe::add_probe(&mut w, round);
                        if !done {
                            idle_advanced_ms = 0;
                            continue;
                        }
                    }
                    return End::Done;
                }
                // jump in poll-interval sized steps; larger ones when the MPP timeout is long
                let jump = 61_000u64.max(mpp_ms / 3 + 1);
                idle_advanced_ms += jump;
                Step::Advance(jump)
            }
        };
        // a second event handled at the same instant as a trampoline delivery, whose task is
        // suspended at one of its first awaits (what another runtime worker does to it)
        let mut second: Option<Step> = None;
        let mut burn_left: Option<u32> = None;
        if script.is_none() {
            if let Step::Deliver(u) = &step {
                let mut w = lock(&shared);
                if w.fuse_pct > 0 && matches!(w.htlcs[*u].spec.label, RefLabel::Tramp { .. }) && rng.below(100) < w.fuse_pct {
                    let cands: Vec<Step> = steps
                        .iter()
                        .map(|(s, _)| s)
                        .filter(|s| match s {
                            Step::Deliver(v) => v != u && matches!(w.htlcs[*v].spec.label, RefLabel::Tramp { .. }),
                            Step::Reply(id) | Step::Apply(id, true) | Step::Fault(id, _) => w.calls.iter().any(|c| c.id == *id && c.method != "getinfo"),
                            _ => false,
                        })
                        .cloned()
                        .collect();
                    if !cands.is_empty() {
                        let s2 = rng.pick(&cands).clone();
                        let left = rng.below(6) as u32;
                        let h2 = match &s2 {
                            Step::Deliver(v) => w.htlcs[*v].hidx,
                            Step::Reply(id) | Step::Apply(id, _) | Step::Fault(id, _) => w.calls.iter().find(|c| c.id == *id).and_then(|c| c.hidx),
                            _ => None,
                        };
                        let mut same = h2.is_some() && h2 == w.htlcs[*u].hidx;
                        if let Step::Deliver(v) = &s2 {
                            w.window_pair = Some((*u, *v));
                        }
                        if let (true, Step::Deliver(v)) = (same, &s2) {
                            // two parts that agree with each other and with their set, neither
                            // rejecting it: the reference model does not depend on their order
                            let agree = match (&w.htlcs[*u].spec.label, &w.htlcs[*v].spec.label) {
                                (RefLabel::Tramp { amount_msat: a, bolt11: b, .. }, RefLabel::Tramp { amount_msat: a2, bolt11: b2, .. }) => a == a2 && b == b2,
                                _ => false,
                            };
                            if agree && monitors::commuting_part(&w, *u) && monitors::commuting_part(&w, *v) {
                                same = false;
                                w.stats.eval("PREEMPT-commuting", left as u64);
                            }
                        }
                        let kind = match &s2 { Step::Deliver(_) => 0u64, Step::Reply(_) => 1, Step::Apply(..) => 2, _ => 3 };
                        w.stats.eval("PREEMPT", kind | ((left as u64) << 2) | ((same as u64) << 5));
                        w.ev(|| format!("TOGETHER with the next delivery (suspended at await {left}; same hash: {same}): {s2:?}"));
                        if same {
                            w.fused = true;
                        }
                        w.sig(mix(777, kind | ((left as u64) << 2)));
                        second = Some(s2);
                        burn_left = Some(left);
                    }
                }
            }
        }
        // execute
        {
            let mut w = lock(&shared);
            w.step += 1;
            let kind = match &step {
                Step::Deliver(_) => 1,
                Step::Apply(_, f) => 2 + *f as u64,
                Step::Reply(_) => 4,
                Step::Fault(_, k) => 5 + k.len() as u64,
                Step::AddPart(_) => 20,
                Step::ResolvePart(_, c) => 21 + *c as u64,
                Step::FinishPay(_, o) => 30 + match o { PayOutcome::Complete => 0, PayOutcome::Pending => 1, PayOutcome::Failed => 2, PayOutcome::FailedWarn => 3, PayOutcome::RpcError(_) => 4 },
                Step::Block(..) => 40,
                Step::Process(_) => 41,
                Step::Advance(_) => 42,
                Step::Crash => 43,
                Step::WaitTimeout(_) => 44,
            };
            // abstract context: per-hash (rec, parts, held)
            let mut ctx = kind;
            for i in 0..w.hashes.len() {
                let r = w.rec(i).tag();
                let (p, c, f) = w.node.live_parts(&w.hashes[i].hex.clone());
                let held = w.held(i).len() as u64;
                ctx = mix(ctx, r | ((p.min(3) as u64) << 2) | ((c.min(3) as u64) << 4) | ((f.min(3) as u64) << 6) | (held.min(7) << 8));
            }
            w.sig(ctx);
        }
        match step {
            Step::Deliver(u) => {
                let m = mgr.clone().unwrap();
                deliver(&shared, m.clone(), u, if second.is_some() { None } else { tr }, burn_left);
                last_delivered.push(u);
                match second.take() {
                    Some(Step::Deliver(v)) => {
                        deliver(&shared, m, v, None, None);
                        last_delivered.push(v);
                    }
                    Some(Step::Reply(id)) => reply_call(&shared, id),
                    Some(Step::Apply(id, f)) => apply_call(&shared, id, f),
                    Some(Step::Fault(id, kind)) => fault_call(&shared, id, kind),
                    _ => {}
                }
            }
            Step::Apply(id, fused) => apply_call(&shared, id, fused),
            Step::Reply(id) => reply_call(&shared, id),
            Step::Fault(id, kind) => fault_call(&shared, id, kind),
            Step::AddPart(pid) => {
                let mut w = lock(&shared);
                let id = w.node.add_part(pid, 1000);
                w.ev(|| format!("PART+ pay#{pid} -> part {id:?}"));
            }
            Step::ResolvePart(k, complete) => resolve_part(&shared, k, complete, rng),
            Step::FinishPay(pid, out) => finish_pay(&shared, pid, out),
            Step::Block(n, mode) => {
                let (h, stale) = {
                    let mut w = lock(&shared);
                    w.node.height = w.node.height.saturating_add(n);
                    let h = w.node.height;
                    w.ev(|| format!("BLOCK height={h} notify_mode={mode}"));
                    (h, h.saturating_sub(2))
                };
                if let Some(bw) = watcher.clone() {
                    // 0: notify; 1: lost notification; 2: notify, then a stale duplicate
                    if mode == 0 || mode == 2 {
                        let mut w = lock(&shared);
                        w.told_height = w.told_height.max(h);
                        drop(w);
                        let b = bw.clone();
                        tokio::spawn(async move { b.new_block(&BlockAdded { height: h }).await });
                    }
                    if mode == 2 {
                        tokio::spawn(async move { bw.new_block(&BlockAdded { height: stale }).await });
                    } else if mode == 3 {
                        // both new heights notified at the same instant; the notification of the
                        // lower one is handled first and suspended at its 1st..3rd await
                        let left = rng.below(3) as u32;
                        let mut w = lock(&shared);
                        w.told_height = w.told_height.max(h);
                        w.ev(|| format!("  notifications {} (suspended at await {left}) and {h} together", h.saturating_sub(1)));
                        drop(w);
                        let b = bw.clone();
                        tokio::spawn(async move {
                            crate::blocksim::burn(left).await;
                            b.new_block(&BlockAdded { height: h.saturating_sub(1) }).await
                        });
                        tokio::spawn(async move { bw.new_block(&BlockAdded { height: h }).await });
                    }
                }
            }
            Step::Process(u) => {
                let mut w = lock(&shared);
                w.htlcs[u].state = HState::Processed;
                w.ev(|| format!("PROCESSED htlc#{u}"));
            }
            Step::Advance(ms) => {
                {
                    let mut w = lock(&shared);
                    w.ev(|| format!("ADVANCE {ms}ms"));
                }
                tokio::time::sleep(Duration::from_millis(ms)).await;
            }
            Step::WaitTimeout(id) => {
                let mut w = lock(&shared);
                if let Some(ci) = w.calls.iter().position(|c| c.id == id && c.state == CallState::Blocked) {
                    w.ev(|| format!("WAITSENDPAY #{id} times out (code 200)"));
                    w.calls[ci].state = CallState::Ready(Err(RpcErr::new(200, "Timed out while waiting")));
                }
            }
            Step::Crash => {
                let mut w = lock(&shared);
                w.crashes_done += 1;
                let s = w.step;
                w.crash_positions.push(s);
                return End::Crash;
            }
        }
    }
}

fn note_reply_delivered(w: &mut World, idx: usize) {
    let now = w.now_ms();
    if let Some(i) = w.calls[idx].hidx {
        if w.sets[i].active {
            w.sets[i].last_reply_ms = Some(now);
            if w.calls[idx].method == "listdatastore" && matches!(w.calls[idx].state, CallState::Ready(Ok(_))) {
                w.sets[i].read_done_ms = Some(now);
            }
            if w.calls[idx].faulted {
                w.sets[i].faulted = true;
            }
        }
    }
    if w.calls[idx].method == "getinfo" {
        if let CallState::Ready(Ok(v)) = &w.calls[idx].state {
            if let Some(h) = v.get("blockheight").and_then(|x| x.as_u64()) {
                w.told_height = w.told_height.max(h as u32);
            }
        }
    }
}

fn apply_call(shared: &Shared, id: u64, fused: bool) {
    let mut w = lock(shared);
    let idx = match w.calls.iter().position(|c| c.id == id) {
        Some(i) => i,
        None => return,
    };
    let method = w.calls[idx].method.clone();
    let params = w.calls[idx].params.clone();
    if method == "datastore" || method == "deldatastore" {
        // the stored record is being rewritten: a fabricated age no longer describes it
        if let Some(i) = w.calls[idx].hidx {
            w.aged_hashes.retain(|(h, _)| *h != i);
        }
    }
    let res: Option<crate::node::RpcResult> = match method.as_str() {
        "datastore" => Some(w.node.datastore(&params)),
        "deldatastore" => Some(w.node.deldatastore(&params)),
        "listdatastore" => Some(w.node.listdatastore(&params)),
        "listsendpays" => Some(w.node.listsendpays(&params)),
        "getinfo" => Some(w.node.getinfo()),
        "waitsendpay" => match w.node.find_part(&params) {
            None => Some(Err(RpcErr::new(208, "Never attempted payment part"))),
            Some(k) => match w.node.waitsendpay_result(k) {
                Some(r) => Some(r),
                None => {
                    w.calls[idx].wait_part = Some(k);
                    None
                }
            },
        },
        "pay" => {
            let hex_ = w.calls[idx].hidx.map(|i| w.hashes[i].hex.clone()).unwrap_or_else(|| "00".repeat(32));
            let pid = w.node.start_pay(id, &params, &hex_);
            w.calls[idx].pay_id = Some(pid);
            None
        }
        _ => Some(Err(RpcErr::new(-32601, "Unknown command"))),
    };
    match res {
        Some(r) => {
            w.ev(|| format!("APPLY #{id} {method} -> {}", match &r { Ok(v) => short(v), Err(e) => format!("ERR {:?} {}", e.code, e.message) }));
            w.calls[idx].state = CallState::Ready(r);
            if fused {
                drop(w);
                reply_call(shared, id);
            }
        }
        None => {
            w.ev(|| format!("APPLY #{id} {method} -> blocked"));
            w.calls[idx].state = CallState::Blocked;
        }
    }
}

fn reply_call(shared: &Shared, id: u64) {
    let mut w = lock(shared);
    let idx = match w.calls.iter().position(|c| c.id == id) {
        Some(i) => i,
        None => return,
    };
    if let CallState::Ready(r) = w.calls[idx].state.clone() {
        note_reply_delivered(&mut w, idx);
        w.ev(|| format!("REPLY #{id}"));
        w.calls[idx].reply_log = Some(match &r {
            Ok(v) => v.to_string(),
            Err(e) => format!("ERR {:?} {}", e.code, e.message),
        });
        if let Some(tx) = w.calls[idx].tx.take() {
            let _ = tx.send(r);
        }
        w.calls[idx].state = CallState::Done;
    }
}

fn fault_call(shared: &Shared, id: u64, kind: &'static str) {
    let mut w = lock(shared);
    let idx = match w.calls.iter().position(|c| c.id == id) {
        Some(i) => i,
        None => return,
    };
    let params = w.calls[idx].params.clone();
    w.faults_done += 1;
    let s = w.step;
    w.fault_positions.push((s, kind));
    w.calls[idx].faulted = true;
    w.last_fault_method = Some(w.calls[idx].method.clone());
    if let Some(i) = w.calls[idx].hidx {
        w.sets[i].faulted = true;
    }
    let err = match kind {
        "reject" => RpcErr::new(-1, "injected: write rejected"),
        "lost-reply" => {
            if let Some(i) = w.calls[idx].hidx {
                w.aged_hashes.retain(|(h, _)| *h != i);
            }
            let _ = w.node.datastore(&params);
            RpcErr::transport("injected: no response from lightningd")
        }
        _ => {
            let codes = [-1, 200, 999];
            let c = codes[(id % 3) as usize];
            if id % 4 == 0 {
                RpcErr::transport("injected: reading response from socket")
            } else {
                RpcErr::new(c, "injected: read error")
            }
        }
    };
    let m = w.calls[idx].method.clone();
    w.ev(|| format!("FAULT #{id} {m} {kind}"));
    w.calls[idx].state = CallState::Ready(Err(err));
}

fn resolve_part(shared: &Shared, k: usize, complete: bool, rng: &mut Rng) {
    let mut w = lock(shared);
    if k >= w.node.parts.len() || w.node.parts[k].status != PartStatus::Pending {
        return;
    }
    let hex_ = w.node.parts[k].hash_hex.clone();
    let pre = w.hash_idx_of_hex(&hex_).map(|i| w.hashes[i].preimage);
    if complete && pre.is_some() {
        w.node.parts[k].status = PartStatus::Complete;
        w.node.parts[k].preimage = pre;
    } else {
        w.node.parts[k].status = PartStatus::Failed;
        w.node.parts[k].fail_code = Some(*rng.pick(&[202, 203, 204, 209, 203, 208]));
    }
    let st = w.node.parts[k].status;
    w.ev(|| format!("PART part[{k}] {hex_} -> {st:?}"));
    // blocked waitsendpay calls on this part become answerable
    for ci in 0..w.calls.len() {
        if w.calls[ci].state == CallState::Blocked && w.calls[ci].wait_part == Some(k) && w.calls[ci].lifetime == w.lifetime {
            if let Some(r) = w.node.waitsendpay_result(k) {
                w.calls[ci].state = CallState::Ready(r);
            }
        }
    }
}

fn finish_pay(shared: &Shared, pid: u64, out: PayOutcome) {
    let mut w = lock(shared);
    let pidx = match w.node.pays.iter().position(|p| p.id == pid && p.running) {
        Some(i) => i,
        None => return,
    };
    let pay = w.node.pays[pidx].clone();
    let pre = w.node.parts.iter().find(|p| p.hash_hex == pay.hash_hex && p.status == PartStatus::Complete).and_then(|p| p.preimage);
    let res = match &out {
        PayOutcome::Complete => match pre {
            Some(p) => Ok(w.node.pay_response(&pay, "complete", false, Some(p))),
            None => return,
        },
        PayOutcome::Pending => Ok(w.node.pay_response(&pay, "pending", false, None)),
        PayOutcome::Failed => Ok(w.node.pay_response(&pay, "failed", false, None)),
        PayOutcome::FailedWarn => Ok(w.node.pay_response(&pay, "failed", true, None)),
        PayOutcome::RpcError(c) => Err(RpcErr::new(*c, "pay failed")),
    };
    w.node.pays[pidx].running = false;
    w.ev(|| format!("PAYEND pay#{pid} {out:?}"));
    if let Some(ci) = w.calls.iter().position(|c| c.id == pay.call_id) {
        w.calls[ci].state = CallState::Ready(res);
    }
}

pub fn json_of_violation(v: &Violation) -> Value {
    json!({"rule": v.rule, "property": v.property, "signature": v.signature, "detail": v.detail, "step": v.step})
}
