//! Generators: keys, invoices, TLV streams (with an independent BigSize reference codec),
//! htlc_accepted requests, together with the *reference label* of every generated request
//! (what the property statements say must happen to it), derived from how the request was
//! built rather than by re-parsing it.

use crate::prng::Rng;
use lightning_invoice::{
    Currency, InvoiceBuilder, PaymentSecret, RawBolt11Invoice, RouteHint, RouteHintHop, RoutingFees,
};
use secp256k1::hashes::{sha256, Hash};
use secp256k1::{PublicKey, Secp256k1, SecretKey};
use serde_json::{json, Value};
use std::time::Duration;

// ------------------------------------------------------------------ reference BigSize/TLV

pub fn put_bigsize(out: &mut Vec<u8>, v: u64) {
    if v < 0xfd {
        out.push(v as u8);
    } else if v <= 0xffff {
        out.push(0xfd);
        out.extend_from_slice(&(v as u16).to_be_bytes());
    } else if v <= 0xffff_ffff {
        out.push(0xfe);
        out.extend_from_slice(&(v as u32).to_be_bytes());
    } else {
        out.push(0xff);
        out.extend_from_slice(&v.to_be_bytes());
    }
}

/// Reads a BigSize (non-minimal encodings accepted, as the code under test does not care).
pub fn get_bigsize(b: &[u8], pos: &mut usize) -> Option<u64> {
    let first = *b.get(*pos)?;
    *pos += 1;
    let n = match first {
        0xfd => 2,
        0xfe => 4,
        0xff => 8,
        v => return Some(v as u64),
    };
    if b.len() < *pos + n {
        return None;
    }
    let mut v: u64 = 0;
    for i in 0..n {
        v = (v << 8) | b[*pos + i] as u64;
    }
    *pos += n;
    Some(v)
}

pub type Rec = (u64, Vec<u8>);

pub fn enc_stream(recs: &[Rec]) -> Vec<u8> {
    let mut out = vec![];
    for (t, v) in recs {
        put_bigsize(&mut out, *t);
        put_bigsize(&mut out, v.len() as u64);
        out.extend_from_slice(v);
    }
    out
}

/// Reference TLV stream decoder: None = malformed (truncated type/length/value).
pub fn dec_stream(b: &[u8]) -> Option<Vec<Rec>> {
    let mut pos = 0;
    let mut out = vec![];
    while pos < b.len() {
        let t = get_bigsize(b, &mut pos)?;
        let l = get_bigsize(b, &mut pos)?;
        if l > (b.len() - pos) as u64 {
            return None;
        }
        let l = l as usize;
        out.push((t, b[pos..pos + l].to_vec()));
        pos += l;
    }
    Some(out)
}

pub fn with_len_prefix(stream: &[u8]) -> Vec<u8> {
    let mut out = vec![];
    put_bigsize(&mut out, stream.len() as u64);
    out.extend_from_slice(stream);
    out
}

pub fn tu64(v: u64) -> Vec<u8> {
    let b = v.to_be_bytes();
    let skip = b.iter().take_while(|x| **x == 0).count();
    b[skip..].to_vec()
}

// ------------------------------------------------------------------ keys / hashes

pub fn secret_key(rng: &mut Rng) -> SecretKey {
    loop {
        let b = rng.bytes(32);
        if let Ok(k) = SecretKey::from_slice(&b) {
            return k;
        }
    }
}

pub fn pubkey(sk: &SecretKey) -> PublicKey {
    PublicKey::from_secret_key(&Secp256k1::new(), sk)
}

pub fn sha256_of(b: &[u8]) -> [u8; 32] {
    sha256::Hash::hash(b).to_byte_array()
}

// ------------------------------------------------------------------ invoices

#[derive(Clone, Debug, PartialEq)]
pub enum Signer {
    /// signed by the payee key, no explicit payee field (key recovery)
    Payee,
    /// explicit payee field = payee key, signed by the payee key
    ExplicitPayee,
    /// explicit payee field = payee key, but signed by another key: signature invalid
    ExplicitPayeeWrongKey,
    /// explicit payee field = payee key, signed by the payee key, but the signature carries the
    /// other recovery id: it verifies against the explicit key, key recovery yields another key
    ExplicitPayeeOtherRecid,
    /// no explicit payee field, signature made over a different message by the payee key:
    /// recovers to an unrelated key; that recovered key is "the key the signature verifies against"
    RecoveredOther,
}

#[derive(Clone, Debug, PartialEq)]
pub enum Hints {
    None,
    Other,
    SelfLast,
    SelfNotLast,
    OtherThenSelfLast,
}

#[derive(Clone, Debug)]
pub struct InvoiceSpec {
    pub payment_hash: [u8; 32],
    pub amount_msat: Option<u64>,
    pub signer: Signer,
    pub hints: Hints,
    pub payee_sk: SecretKey,
    pub other_sk: SecretKey,
    pub local_pubkey: PublicKey,
    pub salt: u8,
}

#[derive(Clone, Debug)]
pub struct InvoiceFacts {
    pub bolt11: String,
    pub payment_hash: [u8; 32],
    pub amount_msat: Option<u64>,
    /// Some(key) when the signature is valid; the key it verifies against
    pub payee: Option<PublicKey>,
    pub self_last_hop: bool,
}

fn hop(src: PublicKey, scid: u64) -> RouteHintHop {
    RouteHintHop {
        src_node_id: src,
        short_channel_id: scid,
        fees: RoutingFees { base_msat: 1000, proportional_millionths: 10 },
        cltv_expiry_delta: 80,
        htlc_minimum_msat: Some(1),
        htlc_maximum_msat: Some(100_000_000_000),
    }
}

pub fn make_invoice(spec: &InvoiceSpec) -> InvoiceFacts {
    let secp = Secp256k1::new();
    let payee_pk = pubkey(&spec.payee_sk);
    let other_pk = pubkey(&spec.other_sk);
    let mut b = InvoiceBuilder::new(Currency::Regtest)
        .description(format!("tramp {}", spec.salt))
        .payment_hash(sha256::Hash::from_byte_array(spec.payment_hash))
        .payment_secret(PaymentSecret([spec.salt; 32]))
        .duration_since_epoch(Duration::from_secs(1_700_000_000))
        .min_final_cltv_expiry_delta(18);
    if let Some(a) = spec.amount_msat {
        b = b.amount_milli_satoshis(a);
    }
    match spec.hints {
        Hints::None => {}
        Hints::Other => b = b.private_route(RouteHint(vec![hop(other_pk, 1)])),
        Hints::SelfLast => b = b.private_route(RouteHint(vec![hop(other_pk, 1), hop(spec.local_pubkey, 2)])),
        Hints::SelfNotLast => b = b.private_route(RouteHint(vec![hop(spec.local_pubkey, 2), hop(other_pk, 1)])),
        Hints::OtherThenSelfLast => {
            b = b
                .private_route(RouteHint(vec![hop(other_pk, 1)]))
                .private_route(RouteHint(vec![hop(spec.local_pubkey, 3)]))
        }
    }
    match spec.signer {
        Signer::ExplicitPayee | Signer::ExplicitPayeeWrongKey | Signer::ExplicitPayeeOtherRecid => b = b.payee_pub_key(payee_pk),
        _ => {}
    }
    let raw: RawBolt11Invoice = b.build_raw().expect("raw invoice");
    let self_last = matches!(spec.hints, Hints::SelfLast | Hints::OtherThenSelfLast);
    let (signed, payee) = match spec.signer {
        Signer::Payee | Signer::ExplicitPayee => {
            let s = raw
                .sign::<_, ()>(|h| Ok(secp.sign_ecdsa_recoverable(h, &spec.payee_sk)))
                .unwrap();
            (s, Some(payee_pk))
        }
        Signer::ExplicitPayeeOtherRecid => {
            let s = raw
                .sign::<_, ()>(|h| {
                    let sig = secp.sign_ecdsa_recoverable(h, &spec.payee_sk);
                    let (rid, bytes) = sig.serialize_compact();
                    let other = secp256k1::ecdsa::RecoveryId::from_i32(rid.to_i32() ^ 1).unwrap();
                    Ok(secp256k1::ecdsa::RecoverableSignature::from_compact(&bytes, other).unwrap())
                })
                .unwrap();
            (s, Some(payee_pk))
        }
        Signer::ExplicitPayeeWrongKey => {
            let s = raw
                .sign::<_, ()>(|h| Ok(secp.sign_ecdsa_recoverable(h, &spec.other_sk)))
                .unwrap();
            (s, None)
        }
        Signer::RecoveredOther => {
            let wrong = secp256k1::Message::from_slice(&sha256_of(b"some other message")).unwrap();
            let s = raw
                .sign::<_, ()>(|_h| Ok(secp.sign_ecdsa_recoverable(&wrong, &spec.payee_sk)))
                .unwrap();
            let rec = s.recover_payee_pub_key().ok().map(|p| p.0);
            (s, rec)
        }
    };
    InvoiceFacts {
        bolt11: signed.to_string(),
        payment_hash: spec.payment_hash,
        amount_msat: spec.amount_msat,
        payee,
        self_last_hop: self_last,
    }
}

// ------------------------------------------------------------------ requests

/// What the property statements require for a generated request.
#[derive(Clone, Debug, PartialEq)]
pub enum RefLabel {
    /// must be answered `continue` at once, no RPC, nothing retained
    Continue,
    /// self as last hop of a route hint and that is disallowed: failed at classification
    FailClassify,
    /// trampoline payment for (hash index, amount, bolt11, payee)
    Tramp { amount_msat: u64, bolt11: String, payee: PublicKey },
    /// must not be treated as trampoline; `continue` or an immediate `fail` both accepted;
    /// no RPC, nothing retained
    NotTramp,
    /// the plugin's own Deserialize may reject it (judged on the real binary in E2E)
    Undecodable,
}

#[derive(Clone, Debug, PartialEq)]
pub enum AmtField {
    Absent,
    /// explicit bytes (0..=9 bytes)
    Bytes(Vec<u8>),
}

#[derive(Clone, Debug)]
pub enum Metadata {
    /// no record 16 at all
    None,
    /// record 16 with these raw bytes
    Raw(Vec<u8>),
    /// record 16 = TLV stream [extra.., 33001: invoice, 33003: amt?]
    Tramp { invoice: InvoiceFacts, amt: AmtField, extra_before: Vec<Rec>, extra_after: Vec<Rec> },
}

#[derive(Clone, Debug)]
pub struct HtlcSpec {
    pub uid: usize,
    pub scid: String,
    pub htlc_id: u64,
    pub htlc_hash: [u8; 32],
    pub amount_msat: u64,
    pub cltv_expiry: u32,
    pub forward_msat: Option<u64>,
    pub total_msat: Option<u64>,
    pub onion_scid: Option<String>,
    /// other payload records (types != 16), in canonical order with 16 inserted in place
    pub other_recs: Vec<Rec>,
    pub metadata: Metadata,
    /// raw override of the hex payload (hostile bytes); label must then be Undecodable/Continue
    pub raw_payload_hex: Option<String>,
    pub label: RefLabel,
    /// delivery gate (retry sets)
    pub gate: Gate,
    /// hex string sent as htlc.payment_hash instead of hex(htlc_hash) (lengths other than 32 bytes)
    pub hash_hex_override: Option<String>,
}

#[derive(Clone, Copy, Debug, PartialEq)]
pub enum Gate {
    None,
    /// deliver only when no HTLC of this hash is held and the original set has been offered
    HashIdle,
    /// deliver only after the HTLC with this uid has been delivered
    After(usize),
}

pub fn metadata_bytes(m: &Metadata) -> Option<Vec<u8>> {
    match m {
        Metadata::None => None,
        Metadata::Raw(b) => Some(b.clone()),
        Metadata::Tramp { invoice, amt, extra_before, extra_after } => {
            let mut recs: Vec<Rec> = extra_before.clone();
            recs.push((33001, invoice.bolt11.as_bytes().to_vec()));
            if let AmtField::Bytes(b) = amt {
                recs.push((33003, b.clone()));
            }
            recs.extend(extra_after.iter().cloned());
            Some(enc_stream(&recs))
        }
    }
}

pub fn payload_records(s: &HtlcSpec) -> Vec<Rec> {
    let mut recs: Vec<Rec> = s.other_recs.clone();
    if let Some(m) = metadata_bytes(&s.metadata) {
        let pos = recs.iter().position(|r| r.0 > 16).unwrap_or(recs.len());
        recs.insert(pos, (16, m));
    }
    recs
}

pub fn payload_hex(s: &HtlcSpec) -> String {
    if let Some(h) = &s.raw_payload_hex {
        return h.clone();
    }
    hex::encode(with_len_prefix(&enc_stream(&payload_records(s))))
}

/// JSON params of an htlc_accepted call for this spec, at the given node height.
pub fn request_json(s: &HtlcSpec, height: u32) -> Value {
    let mut onion = json!({
        "payload": payload_hex(s),
        "type": "tlv",
        "next_onion": "00",
        "shared_secret": "0000000000000000000000000000000000000000000000000000000000000000",
    });
    if let Some(f) = s.forward_msat {
        onion["forward_msat"] = json!(f);
    }
    if let Some(t) = s.total_msat {
        onion["total_msat"] = json!(t);
        onion["payment_secret"] = json!("2a2a2a2a2a2a2a2a2a2a2a2a2a2a2a2a2a2a2a2a2a2a2a2a2a2a2a2a2a2a2a2a");
    }
    if let Some(c) = &s.onion_scid {
        onion["short_channel_id"] = json!(c);
    }
    onion["outgoing_cltv_value"] = json!(s.cltv_expiry);
    json!({
        "onion": onion,
        "htlc": {
            "short_channel_id": s.scid,
            "id": s.htlc_id,
            "amount_msat": s.amount_msat,
            "cltv_expiry": s.cltv_expiry,
            "cltv_expiry_relative": (s.cltv_expiry as i64) - (height as i64),
            "payment_hash": s.hash_hex_override.clone().unwrap_or_else(|| hex::encode(s.htlc_hash)),
        },
        "forward_to": "0000000000000000000000000000000000000000000000000000000000000000",
    })
}

/// The amount reconciliation the statement of C10 prescribes. `None` = not usable as trampoline.
pub fn ref_amount(invoice_amount: Option<u64>, amt: &AmtField) -> Option<u64> {
    let field: Option<u64> = match amt {
        AmtField::Absent => None,
        AmtField::Bytes(b) if b.len() <= 8 => {
            let mut v = 0u64;
            for x in b {
                v = (v << 8) | *x as u64;
            }
            Some(v)
        }
        AmtField::Bytes(_) => None, // malformed: treated as not well-formed => ignored
    };
    match (invoice_amount, field) {
        (Some(a), None) => Some(a),
        (Some(a), Some(f)) => {
            if a == f {
                Some(a)
            } else {
                None
            }
        }
        (None, Some(f)) => Some(f),
        (None, None) => None,
    }
}

/// Reference classification of a request built from parts (C10/C13 statements).
pub fn ref_label(
    htlc_hash: &[u8; 32],
    onion_scid: &Option<String>,
    forward_msat: &Option<u64>,
    metadata: &Metadata,
    allow_self_route_hints: bool,
) -> RefLabel {
    if onion_scid.is_some() {
        return RefLabel::Continue;
    }
    match metadata {
        Metadata::None => RefLabel::Continue,
        Metadata::Raw(_) => RefLabel::Continue,
        Metadata::Tramp { invoice, amt, extra_before, .. } => {
            // the amount record may also precede the invoice record (record order is free inside
            // the metadata stream); the generator never emits two amount records
            let moved = extra_before.iter().find(|r| r.0 == 33003).map(|r| AmtField::Bytes(r.1.clone()));
            let amt = moved.as_ref().unwrap_or(amt);
            let payee = match invoice.payee {
                Some(p) => p,
                None => return RefLabel::Continue, // invalid signature: unusable metadata
            };
            let amount = match ref_amount(invoice.amount_msat, amt) {
                Some(a) => a,
                None => return RefLabel::Continue,
            };
            if &invoice.payment_hash != htlc_hash {
                return RefLabel::NotTramp;
            }
            if invoice.self_last_hop && !allow_self_route_hints {
                return RefLabel::FailClassify;
            }
            if forward_msat.is_none() {
                return RefLabel::NotTramp;
            }
            RefLabel::Tramp { amount_msat: amount, bolt11: invoice.bolt11.clone(), payee }
        }
    }
}
