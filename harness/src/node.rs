//! SimNode: the simulated lightningd (DESIGN 2.2). JSON in, JSON out. Holds the ground
//! truth the monitors compare against: datastore, sendpay parts, running pay commands.
//! It knows nothing about the plugin's storage format.

use serde_json::{json, Value};
use std::collections::BTreeMap;

pub type RpcResult = Result<Value, RpcErr>;

#[derive(Clone, Debug, PartialEq)]
pub struct RpcErr {
    pub code: Option<i32>,
    pub message: String,
}

impl RpcErr {
    pub fn new(code: i32, m: &str) -> Self {
        RpcErr {
            code: Some(code),
            message: m.to_string(),
        }
    }
    pub fn transport(m: &str) -> Self {
        RpcErr {
            code: None,
            message: m.to_string(),
        }
    }
}

#[derive(Clone, Debug, PartialEq)]
pub struct DsEntry {
    pub data: Vec<u8>,
    pub generation: u64,
}

#[derive(Clone, Copy, Debug, PartialEq, Eq, Hash, PartialOrd, Ord)]
pub enum PartStatus {
    Pending,
    Complete,
    Failed,
}

#[derive(Clone, Debug)]
pub struct Part {
    pub id: u64,
    pub hash_hex: String,
    pub groupid: u64,
    pub partid: u64,
    pub status: PartStatus,
    pub preimage: Option<[u8; 32]>,
    pub fail_code: Option<i32>,
    pub pay_id: u64,
    pub amount_msat: u64,
}

#[derive(Clone, Debug)]
pub struct PayCmd {
    pub id: u64,
    pub call_id: u64,
    pub hash_hex: String,
    pub bolt11: String,
    pub params: Value,
    pub running: bool,
    pub groupid: u64,
    pub parts_created: u64,
}

/// lightningd-side state that survives a plugin/node restart (datastore, sendpays) plus
/// what does not (running pay commands are killed by a crash).
#[derive(Clone, Debug, Default)]
pub struct Node {
    pub height: u32,
    pub ds: BTreeMap<Vec<String>, DsEntry>,
    pub parts: Vec<Part>,
    pub pays: Vec<PayCmd>,
    pub next_part_id: u64,
    pub next_pay_id: u64,
    pub next_group: BTreeMap<String, u64>,
    pub node_id_hex: String,
    /// number of datastore mutations applied (each is a possible crash image)
    pub ds_mutations: u64,
    /// the first part of every pay gets partid 0 (lightningd's unsplit payments)
    pub first_partid_zero: bool,
}

fn key_of(params: &Value) -> Result<Vec<String>, RpcErr> {
    match params.get("key") {
        Some(Value::Array(a)) => {
            let mut k = vec![];
            for e in a {
                match e.as_str() {
                    Some(s) => k.push(s.to_string()),
                    None => return Err(RpcErr::new(-32602, "key: should be a string or array of strings")),
                }
            }
            Ok(k)
        }
        Some(Value::String(s)) => Ok(vec![s.clone()]),
        _ => Err(RpcErr::new(-32602, "missing required parameter: key")),
    }
}

fn entry_json(key: &[String], e: &DsEntry) -> Value {
    let mut v = json!({
        "key": key,
        "generation": e.generation,
        "hex": hex::encode(&e.data),
    });
    if let Ok(s) = std::str::from_utf8(&e.data) {
        v["string"] = json!(s);
    }
    v
}

impl Node {
    pub fn new(height: u32, node_id_hex: &str) -> Self {
        Node {
            height,
            node_id_hex: node_id_hex.to_string(),
            next_part_id: 1,
            next_pay_id: 1,
            ..Default::default()
        }
    }

    // ---------------------------------------------------------------- datastore

    /// `datastore` with lightningd semantics. Mutates.
    pub fn datastore(&mut self, params: &Value) -> RpcResult {
        let key = key_of(params)?;
        let data: Vec<u8> = match (params.get("string"), params.get("hex")) {
            (Some(Value::String(s)), None) | (Some(Value::String(s)), Some(Value::Null)) => s.as_bytes().to_vec(),
            (None, Some(Value::String(h))) | (Some(Value::Null), Some(Value::String(h))) => {
                hex::decode(h).map_err(|_| RpcErr::new(-32602, "hex: should be a hex value"))?
            }
            (Some(Value::String(_)), Some(Value::String(_))) => {
                return Err(RpcErr::new(-32602, "Cannot have both hex and string"))
            }
            _ => return Err(RpcErr::new(-32602, "Must have either hex or string")),
        };
        let mode = match params.get("mode") {
            None | Some(Value::Null) => "must-create".to_string(),
            Some(Value::String(s)) => s.clone(),
            _ => return Err(RpcErr::new(-32602, "mode: should be a string")),
        };
        let generation = match params.get("generation") {
            None | Some(Value::Null) => None,
            Some(v) => match v.as_u64() {
                Some(g) => Some(g),
                None => return Err(RpcErr::new(-32602, "generation: should be an unsigned 64 bit integer")),
            },
        };
        if generation.is_some() && mode != "must-replace" && mode != "must-append" {
            return Err(RpcErr::new(
                -32602,
                "generation only valid with must-replace or must-append",
            ));
        }
        // parent / child conflicts
        for i in 1..key.len() {
            if self.ds.contains_key(&key[..i].to_vec()) {
                return Err(RpcErr::new(1206, "Parent key exists"));
            }
        }
        let has_children = self
            .ds
            .keys()
            .any(|k| k.len() > key.len() && k[..key.len()] == key[..]);
        if has_children {
            return Err(RpcErr::new(1205, "Key has children already"));
        }
        let existing = self.ds.get(&key).cloned();
        let new_entry = match mode.as_str() {
            "must-create" => {
                if existing.is_some() {
                    return Err(RpcErr::new(1202, "Key already exists"));
                }
                DsEntry { data, generation: 0 }
            }
            "must-replace" => match existing {
                None => return Err(RpcErr::new(1203, "Key does not exist")),
                Some(e) => {
                    if let Some(g) = generation {
                        if g != e.generation {
                            return Err(RpcErr::new(1204, "generation is different"));
                        }
                    }
                    DsEntry { data, generation: e.generation + 1 }
                }
            },
            "create-or-replace" => match existing {
                None => DsEntry { data, generation: 0 },
                Some(e) => DsEntry { data, generation: e.generation + 1 },
            },
            "must-append" => match existing {
                None => return Err(RpcErr::new(1203, "Key does not exist")),
                Some(e) => {
                    if let Some(g) = generation {
                        if g != e.generation {
                            return Err(RpcErr::new(1204, "generation is different"));
                        }
                    }
                    let mut d = e.data.clone();
                    d.extend_from_slice(&data);
                    DsEntry { data: d, generation: e.generation + 1 }
                }
            },
            "create-or-append" => match existing {
                None => DsEntry { data, generation: 0 },
                Some(e) => {
                    let mut d = e.data.clone();
                    d.extend_from_slice(&data);
                    DsEntry { data: d, generation: e.generation + 1 }
                }
            },
            _ => return Err(RpcErr::new(-32602, "mode: unknown mode")),
        };
        let out = entry_json(&key, &new_entry);
        self.ds.insert(key, new_entry);
        self.ds_mutations += 1;
        Ok(out)
    }

    /// `deldatastore` with lightningd semantics (1200 unknown key, 1201 generation mismatch).
    pub fn deldatastore(&mut self, params: &Value) -> RpcResult {
        let key = key_of(params)?;
        let e = match self.ds.get(&key) {
            Some(e) => e.clone(),
            None => return Err(RpcErr::new(1200, "Key does not exist")),
        };
        if let Some(g) = params.get("generation").and_then(|v| v.as_u64()) {
            if g != e.generation {
                return Err(RpcErr::new(1201, "generation is different"));
            }
        }
        self.ds.remove(&key);
        self.ds_mutations += 1;
        Ok(entry_json(&key, &e))
    }

    pub fn listdatastore(&self, params: &Value) -> RpcResult {
        let key = match params.get("key") {
            None | Some(Value::Null) => vec![],
            _ => key_of(params)?,
        };
        if let Some(e) = self.ds.get(&key) {
            return Ok(json!({ "datastore": [entry_json(&key, e)] }));
        }
        // immediate children
        let mut seen: Vec<Vec<String>> = vec![];
        let mut out = vec![];
        for (k, e) in self.ds.iter() {
            if k.len() > key.len() && k[..key.len()] == key[..] {
                let child = k[..key.len() + 1].to_vec();
                if seen.contains(&child) {
                    continue;
                }
                seen.push(child.clone());
                if k.len() == child.len() {
                    out.push(entry_json(&child, e));
                } else {
                    out.push(json!({ "key": child }));
                }
            }
        }
        Ok(json!({ "datastore": out }))
    }

    // ---------------------------------------------------------------- sendpays

    fn part_json(&self, p: &Part) -> Value {
        let mut v = json!({
            "id": p.id,
            "created_index": p.id,
            "groupid": p.groupid,
            "payment_hash": p.hash_hex,
            "status": match p.status { PartStatus::Pending => "pending", PartStatus::Complete => "complete", PartStatus::Failed => "failed" },
            "amount_msat": p.amount_msat,
            "amount_sent_msat": p.amount_msat,
            "created_at": 1_700_000_000u64 + p.id,
        });
        // like lightningd: partid is omitted when it is 0 (single-part payments)
        if p.partid != 0 {
            v["partid"] = json!(p.partid);
        }
        if let (PartStatus::Complete, Some(pre)) = (p.status, p.preimage) {
            v["payment_preimage"] = json!(hex::encode(pre));
            v["completed_at"] = json!(1_700_000_100u64 + p.id);
        }
        v
    }

    pub fn listsendpays(&self, params: &Value) -> RpcResult {
        let hash = params.get("payment_hash").and_then(|v| v.as_str()).map(|s| s.to_string());
        let status = params.get("status").and_then(|v| v.as_str()).map(|s| s.to_string());
        let mut out = vec![];
        for p in &self.parts {
            if let Some(h) = &hash {
                if &p.hash_hex != h {
                    continue;
                }
            }
            if let Some(s) = &status {
                let ps = match p.status {
                    PartStatus::Pending => "pending",
                    PartStatus::Complete => "complete",
                    PartStatus::Failed => "failed",
                };
                if ps != s {
                    continue;
                }
            }
            out.push(self.part_json(p));
        }
        Ok(json!({ "payments": out }))
    }

    pub fn find_part(&self, params: &Value) -> Option<usize> {
        let hash = params.get("payment_hash").and_then(|v| v.as_str())?;
        let groupid = params.get("groupid").and_then(|v| v.as_u64());
        let partid = params.get("partid").and_then(|v| v.as_u64()).unwrap_or(0);
        // lightningd: without groupid the latest group is used
        let g = match groupid {
            Some(g) => g,
            None => self.parts.iter().filter(|p| p.hash_hex == hash).map(|p| p.groupid).max()?,
        };
        self.parts
            .iter()
            .position(|p| p.hash_hex == hash && p.groupid == g && p.partid == partid)
    }

    /// Result of waitsendpay for a part that has resolved (None if still pending).
    pub fn waitsendpay_result(&self, idx: usize) -> Option<RpcResult> {
        let p = &self.parts[idx];
        match p.status {
            PartStatus::Pending => None,
            PartStatus::Complete => Some(Ok(self.part_json(p))),
            PartStatus::Failed => Some(Err(RpcErr::new(
                p.fail_code.unwrap_or(203),
                "failed: part failed",
            ))),
        }
    }

    pub fn getinfo(&self) -> RpcResult {
        Ok(json!({
            "id": self.node_id_hex,
            "alias": "SIMNODE",
            "color": "02bf81",
            "num_peers": 1,
            "num_pending_channels": 0,
            "num_active_channels": 1,
            "num_inactive_channels": 0,
            "version": "v24.11-sim",
            "blockheight": self.height,
            "network": "regtest",
            "fees_collected_msat": 0,
            "lightning-dir": "/sim",
            "address": [],
            "binding": [],
        }))
    }

    // ---------------------------------------------------------------- pay command

    pub fn start_pay(&mut self, call_id: u64, params: &Value, hash_hex: &str) -> u64 {
        let id = self.next_pay_id;
        self.next_pay_id += 1;
        let g = self.next_group.entry(hash_hex.to_string()).or_insert(0);
        *g += 1;
        let groupid = *g;
        self.pays.push(PayCmd {
            id,
            call_id,
            hash_hex: hash_hex.to_string(),
            bolt11: params.get("bolt11").and_then(|v| v.as_str()).unwrap_or("").to_string(),
            params: params.clone(),
            running: true,
            groupid,
            parts_created: 0,
        });
        id
    }

    pub fn add_part(&mut self, pay_id: u64, amount_msat: u64) -> Option<u64> {
        let pay = self.pays.iter_mut().find(|p| p.id == pay_id && p.running)?;
        pay.parts_created += 1;
        let partid = if self.first_partid_zero { pay.parts_created - 1 } else { pay.parts_created };
        let id = self.next_part_id;
        self.next_part_id += 1;
        let part = Part {
            id,
            hash_hex: pay.hash_hex.clone(),
            groupid: pay.groupid,
            partid,
            status: PartStatus::Pending,
            preimage: None,
            fail_code: None,
            pay_id,
            amount_msat,
        };
        self.parts.push(part);
        Some(id)
    }

    pub fn live_parts(&self, hash_hex: &str) -> (usize, usize, usize) {
        let mut r = (0, 0, 0);
        for p in self.parts.iter().filter(|p| p.hash_hex == hash_hex) {
            match p.status {
                PartStatus::Pending => r.0 += 1,
                PartStatus::Complete => r.1 += 1,
                PartStatus::Failed => r.2 += 1,
            }
        }
        r
    }

    pub fn pay_running(&self, hash_hex: &str) -> bool {
        self.pays.iter().any(|p| p.running && p.hash_hex == hash_hex)
    }

    /// "live": some part pending or complete, or a pay command running for the hash.
    pub fn live(&self, hash_hex: &str) -> bool {
        let (p, c, _) = self.live_parts(hash_hex);
        p > 0 || c > 0 || self.pay_running(hash_hex)
    }

    /// A crash kills running pay commands; parts stay as they are.
    pub fn crash(&mut self) {
        for p in self.pays.iter_mut() {
            p.running = false;
        }
    }

    pub fn pay_response(&self, pay: &PayCmd, status: &str, warning: bool, preimage: Option<[u8; 32]>) -> Value {
        let mut v = json!({
            "status": status,
            "amount_msat": 1000,
            "amount_sent_msat": 1001,
            "created_at": 1_700_000_000.5f64,
            "parts": pay.parts_created,
            "payment_hash": pay.hash_hex,
            "payment_preimage": hex::encode(preimage.unwrap_or([0u8; 32])),
            "destination": self.node_id_hex,
        });
        if warning {
            v["warning_partial_completion"] = json!("Some parts of the payment are not yet completed, but we have the confirmation from the recipient.");
        }
        v
    }
}
