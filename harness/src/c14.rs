//! C14 differential isolation check: payment B alone vs. B next to a payment A that is
//! frozen at one of its suspension points. Everything that concerns B must be identical.

use crate::gen::*;
use crate::plan::{fee_of, std_payload_recs, Plan, Profile};
use crate::prng::{mix, Rng};
use crate::sim::{run_one, Freeze, PayOutcome, RunOpts, RunResult, Script};
use crate::world::{HashInfo, Recipient, SimCfg};
use std::collections::{BTreeMap, BTreeSet};
use std::time::Duration;

#[derive(Clone, Debug)]
pub struct BShape {
    pub n_htlcs: usize,
    /// 0 funded, 1 partial (times out), 2 second HTLC rejects (low expiry)
    pub kind: u8,
    pub amountless: bool,
}

fn cfg() -> SimCfg {
    SimCfg {
        base: 1000,
        ppm: 5000,
        policy_delta: 1008,
        cltv_delta: 34,
        mpp_timeout: Duration::from_secs(60),
        payment_timeout: Duration::from_secs(60),
        xpay: false,
        allow_self: true,
        start_height: 1000,
        fault_tier: 0,
        max_faults: 0,
        max_crashes: 0,
        max_steps: 900,
        probe: false,
        age_pending_secs: None,
        probe_age_secs: None,
        probe_same_process: false,
    }
}

fn one_hash(idx: usize, seed: u64, local_pk: secp256k1::PublicKey, cfg: &SimCfg, shape: &BShape, first_uid: usize) -> (HashInfo, Vec<HtlcSpec>) {
    let mut rng = Rng::new(seed);
    let mut pre = [0u8; 32];
    pre.copy_from_slice(&rng.bytes(32));
    let hash = sha256_of(&pre);
    let amount = 1_000_000u64 + rng.below(1000);
    let inv = make_invoice(&InvoiceSpec { payment_hash: hash, amount_msat: if shape.amountless { None } else { Some(amount) }, signer: Signer::Payee, hints: Hints::None, payee_sk: secret_key(&mut rng), other_sk: secret_key(&mut rng), local_pubkey: local_pk, salt: (seed % 200) as u8 });
    let invoice: lightning_invoice::Bolt11Invoice = inv.bolt11.parse().unwrap();
    let tramp = crate::messages::TrampolineInfo {
        bolt11: inv.bolt11.clone(),
        payee: invoice.get_payee_pub_key(),
        invoice,
        amount_msat: amount,
        routing_policy: crate::messages::TrampolineRoutingPolicy { fee_base_msat: cfg.base, fee_proportional_millionths: cfg.ppm, cltv_expiry_delta: cfg.policy_delta },
    };
    let info = HashInfo { idx, preimage: pre, hash, hex: hex::encode(hash), tramp, recipient: Recipient::Mixed };
    let need = (amount as u128 + fee_of(cfg, amount)) as u64;
    let mut htlcs = vec![];
    for k in 0..shape.n_htlcs {
        let am = if shape.kind == 1 || shape.kind == 5 || (shape.kind == 6 && k > 0) {
            need / 3
        } else if shape.n_htlcs == 1 || shape.kind == 6 {
            need
        } else if k == 0 {
            need / 2
        } else {
            need - need / 2
        };
        let rel = if (shape.kind == 2 && k == shape.n_htlcs - 1) || shape.kind == 5 || (shape.kind == 6 && k > 0) { cfg.policy_delta as u32 - 1 } else { cfg.policy_delta as u32 + 50 + k as u32 };
        let expiry = cfg.start_height + rel;
        let amt = if shape.amountless { AmtField::Bytes(tu64(amount)) } else { AmtField::Absent };
        let metadata = Metadata::Tramp { invoice: inv.clone(), amt, extra_before: vec![], extra_after: vec![] };
        let forward = Some(am);
        let label = ref_label(&hash, &None, &forward, &metadata, true);
        htlcs.push(HtlcSpec {
            uid: first_uid + k,
            scid: format!("{}x1x{}", 10 + (seed % 50), k),
            htlc_id: (first_uid + k) as u64,
            htlc_hash: hash,
            amount_msat: am,
            cltv_expiry: expiry,
            forward_msat: forward,
            total_msat: Some(need),
            onion_scid: None,
            other_recs: std_payload_recs(&mut Rng::new(3), am, expiry, Some(need)),
            metadata,
            raw_payload_hex: None,
            label,
            gate: Gate::None,
            hash_hex_override: None,
        });
    }
    (info, htlcs)
}

fn plan(with_a: bool, a_shape: BShape, b_shape: BShape, seed_a: u64, seed_b: u64) -> impl FnOnce(&mut Rng) -> Plan {
    move |_rng: &mut Rng| {
        let cfg = cfg();
        let local_sk = secret_key(&mut Rng::new(4242));
        let local_pk = pubkey(&local_sk);
        let mut hashes = vec![];
        let mut htlcs = vec![];
        if with_a {
            let (h, v) = one_hash(0, seed_a, local_pk, &cfg, &a_shape, 0);
            hashes.push(h);
            htlcs.extend(v);
        }
        let (h, v) = one_hash(hashes.len(), seed_b, local_pk, &cfg, &b_shape, htlcs.len());
        hashes.push(h);
        htlcs.extend(v);
        Plan { cfg, local_sk, local_pk, hashes, htlcs }
    }
}

/// wall-clock derived strings (attempt ids, pay labels) are abstracted before comparing
fn norm(s: &str) -> String {
    let mut out = String::new();
    let mut run = String::new();
    for c in s.chars() {
        if c.is_ascii_digit() {
            run.push(c);
        } else {
            if run.len() >= 10 && run.len() <= 20 {
                out.push('#');
            } else {
                out.push_str(&run);
            }
            run.clear();
            out.push(c);
        }
    }
    if run.len() >= 10 && run.len() <= 20 {
        out.push('#');
    } else {
        out.push_str(&run);
    }
    // attempt_time hex inside datastore replies ("hex" of the stored string) varies too
    out
}

fn strip_hex_field(s: &str) -> String {
    // drop `"hex":"…"` members of datastore replies (they duplicate `string`)
    let mut out = String::new();
    let mut rest = s;
    while let Some(p) = rest.find("\"hex\":\"") {
        out.push_str(&rest[..p]);
        let after = &rest[p + 7..];
        match after.find('"') {
            Some(q) => rest = &after[q + 1..],
            None => {
                rest = "";
            }
        }
    }
    out.push_str(rest);
    out
}

/// node-global counters in sendpay records legitimately differ when another payment exists
fn strip_counters(s: &str) -> String {
    let mut out = s.to_string();
    for key in ["\"id\":", "\"created_index\":", "\"created_at\":", "\"completed_at\":"] {
        let mut res = String::new();
        let mut rest = out.as_str();
        while let Some(p) = rest.find(key) {
            res.push_str(&rest[..p + key.len()]);
            let after = &rest[p + key.len()..];
            let end = after.find(|c: char| !(c.is_ascii_digit() || c == '#' || c == '.')).unwrap_or(after.len());
            res.push('_');
            rest = &after[end..];
        }
        res.push_str(rest);
        out = res;
    }
    out
}

fn b_trace(r: &RunResult, b_hex: &str) -> (Vec<String>, Vec<(String, u64)>) {
    let bi = r.hash_hex.iter().position(|h| h == b_hex);
    let calls: Vec<String> = r.call_log.iter().filter(|c| c.hidx == bi && bi.is_some()).map(|c| format!("{} {} -> {}", c.method, norm(&strip_hex_field(&c.params)), strip_counters(&norm(&strip_hex_field(&c.reply))))).collect();
    let answers: Vec<(String, u64)> = r.answers.iter().filter(|a| a.hidx == bi && bi.is_some()).map(|a| (a.json.clone(), a.rel_ms)).collect();
    (calls, answers)
}

pub const FREEZE_POINTS: [(&str, u64, u8); 15] = [
    // A: a part that completes the amount, then one that fails the expiry test (ready and
    // fail both signalled to a lifecycle that is stuck)
    ("listdatastore", 0, 6),
    ("datastore", 0, 6),
    ("datastore", 1, 6),
    ("pay", 0, 6),
    // A consists of two parts that both fail the expiry test while its lifecycle is stuck
    ("listdatastore", 0, 4),
    ("timer", 0, 4),
    ("listdatastore", 0, 0),
    ("datastore", 0, 0),
    ("datastore", 1, 0),
    ("pay", 0, 0),
    ("listsendpays", 0, 1),
    ("listsendpays", 1, 1),
    ("waitsendpay", 0, 1),
    ("datastore", 2, 2),
    ("timer", 0, 3),
];

#[derive(Default)]
pub struct C14Stats {
    pub pairs: u64,
    pub evals: BTreeMap<&'static str, u64>,
    pub classes: BTreeSet<String>,
    pub violations: BTreeMap<String, (u64, String)>,
    pub samples: Vec<String>,
    pub b_calls_compared: u64,
    pub not_frozen: u64,
}

impl C14Stats {
    fn v(&mut self, sig: String, w: String) {
        let e = self.violations.entry(sig).or_insert((0, w));
        e.0 += 1;
    }
    pub fn merge(&mut self, o: C14Stats) {
        self.pairs += o.pairs;
        self.b_calls_compared += o.b_calls_compared;
        self.not_frozen += o.not_frozen;
        for (k, v) in o.evals {
            *self.evals.entry(k).or_insert(0) += v;
        }
        self.classes.extend(o.classes);
        for (k, (n, w)) in o.violations {
            let e = self.violations.entry(k).or_insert((0, w));
            e.0 += n;
        }
        if self.samples.len() < 4 {
            self.samples.extend(o.samples);
        }
    }
}

pub fn b_scripts() -> Vec<(BShape, Script)> {
    let mut v = vec![];
    let outs: Vec<(PayOutcome, bool, bool)> = vec![
        (PayOutcome::Complete, false, true),
        (PayOutcome::Failed, false, false),
        (PayOutcome::Pending, true, true),
        (PayOutcome::Pending, true, false),
        (PayOutcome::FailedWarn, true, true),
        (PayOutcome::RpcError(210), true, false),
    ];
    for n in [1usize, 2, 3] {
        for kind in [0u8, 1, 2] {
            if kind == 2 && n == 1 {
                continue;
            }
            for amountless in [false, true] {
                for (o, before, completes) in &outs {
                    if kind != 0 && *o != PayOutcome::Complete {
                        continue; // no pay happens for partial / rejected sets
                    }
                    for fuse in [true, false] {
                        v.push((
                            BShape { n_htlcs: n, kind, amountless },
                            Script { crash_at_step: None, fault_at_write: None, pay_outcome: o.clone(), finish_before_resolve: *before, part_completes: *completes, fuse, deliver_first: false, freeze: None },
                        ));
                    }
                }
            }
        }
    }
    v
}

pub fn run_pair(st: &mut C14Stats, shape: &BShape, script: &Script, fp: (&'static str, u64, u8), seed: u64) {
    let seed_a = mix(seed, 1);
    let seed_b = mix(seed, 2);
    let a_shape = match fp.2 {
        3 => BShape { n_htlcs: 1, kind: 1, amountless: false },
        4 => BShape { n_htlcs: 2, kind: 5, amountless: false },
        6 => BShape { n_htlcs: 2, kind: 6, amountless: false },
        _ => BShape { n_htlcs: 1, kind: 0, amountless: false },
    };
    let (own_outcome, own_before) = match fp.2 {
        1 => (PayOutcome::Pending, true),
        2 => (PayOutcome::Failed, false),
        _ => (PayOutcome::Complete, false),
    };
    // solo
    let solo = run_one(RunOpts { seed, profile: Profile::Mixed, thorough: false, log_events: false, script: Some(script.clone()), plan_override: Some(Box::new(plan(false, a_shape.clone(), shape.clone(), seed_a, seed_b))), target: None });
    let mut sc2 = script.clone();
    sc2.freeze = Some(Freeze { hidx: 0, method: fp.0, nth: fp.1, own_outcome, own_before });
    let duo = run_one(RunOpts { seed, profile: Profile::Mixed, thorough: false, log_events: false, script: Some(sc2), plan_override: Some(Box::new(plan(true, a_shape, shape.clone(), seed_a, seed_b))), target: None });
    st.pairs += 1;
    let b_hex = solo.hash_hex[0].clone();
    let a_hex = duo.hash_hex[0].clone();
    let (c1, a1) = b_trace(&solo, &b_hex);
    let (c2, a2) = b_trace(&duo, &b_hex);
    let ctx = format!("B={shape:?} script=({:?},before={},completes={},fuse={}) A frozen at {}#{}", script.pay_outcome, script.finish_before_resolve, script.part_completes, script.fuse, fp.0, fp.1);
    // was A really frozen? (its HTLC must still be unanswered and the withheld call outstanding)
    let a_unanswered = duo.answers.iter().all(|a| a.hidx != Some(0));
    let a_reached = if fp.0 == "timer" { true } else { duo.call_log.iter().filter(|c| c.hidx == Some(0) && c.method == fp.0).count() as u64 > fp.1 };
    if !a_unanswered || !a_reached {
        st.not_frozen += 1;
        return;
    }
    st.classes.insert(format!("{}#{}|n={}|kind={}|{:?}", fp.0, fp.1, shape.n_htlcs, shape.kind, script.pay_outcome));
    *st.evals.entry("R14a").or_insert(0) += 1;
    st.b_calls_compared += c1.len() as u64;
    if c1 != c2 {
        let first = c1.iter().zip(c2.iter()).position(|(x, y)| x != y).unwrap_or(c1.len().min(c2.len()));
        st.v(format!("R14a|rpc-sequence-differs|{}#{}", fp.0, fp.1), format!("{ctx}: B alone issued {} calls, next to frozen A {}; first difference at #{first}: alone={:?} with-A={:?}", c1.len(), c2.len(), c1.get(first), c2.get(first)));
    } else if a1.iter().map(|x| &x.0).collect::<Vec<_>>() != a2.iter().map(|x| &x.0).collect::<Vec<_>>() {
        st.v(format!("R14a|answers-differ|{}#{}", fp.0, fp.1), format!("{ctx}: alone={a1:?} with-A={a2:?}"));
    } else {
        // timestamps (relative to each HTLC's delivery) differ by at most the extra steps
        for (x, y) in a1.iter().zip(a2.iter()) {
            let d = x.1.abs_diff(y.1);
            if d > 25 {
                st.v(format!("R14a|delayed-by-other-hash|{}#{}", fp.0, fp.1), format!("{ctx}: answer after {} ms alone, {} ms next to frozen A", x.1, y.1));
            }
        }
    }
    // R14b: the table lock is free at every quiescence while A is frozen
    *st.evals.entry("R14b").or_insert(0) += 1;
    for v in duo.violations.iter().filter(|v| v.rule == "R06d") {
        st.v(format!("R14b|table-lock-held|{}#{}", fp.0, fp.1), format!("{ctx}: {}", v.detail));
    }
    // R14c: namespacing
    *st.evals.entry("R14c").or_insert(0) += 1;
    let bi = duo.hash_hex.iter().position(|h| *h == b_hex);
    for c in &duo.call_log {
        if c.method == "getinfo" {
            continue;
        }
        if c.hidx.is_none() {
            st.v("R14c|rpc-not-namespaced-by-an-offered-hash".into(), format!("{ctx}: {} {}", c.method, c.params.chars().take(200).collect::<String>()));
        }
        if c.hidx == bi && (c.params.contains(&a_hex) || c.reply.contains(&a_hex)) {
            st.v("R14c|call-for-B-mentions-A".into(), format!("{ctx}: {} {}", c.method, c.params.chars().take(200).collect::<String>()));
        }
    }
    if st.samples.len() < 2 && c1.len() > 3 {
        st.samples.push(format!("{ctx}: {} B calls identical, answers {:?}", c1.len(), a1));
    }
}

/// Payment B alone vs. B plus an "intruder": an HTLC locked to another payment hash that
/// carries B's invoice, arriving after B's first part. It must be passed on and must not
/// be pooled into B (amounts, expiries).
fn plan_intruder(with_x: bool, b_shape: BShape, seed_b: u64, seed_x: u64) -> impl FnOnce(&mut Rng) -> Plan {
    move |_rng: &mut Rng| {
        let cfg = cfg();
        let local_sk = secret_key(&mut Rng::new(4242));
        let local_pk = pubkey(&local_sk);
        let (hb, vb) = one_hash(0, seed_b, local_pk, &cfg, &b_shape, 0);
        let mut hashes = vec![];
        let mut htlcs = vb.clone();
        if with_x {
            let mut rx = Rng::new(seed_x);
            let mut xh = [0u8; 32];
            xh.copy_from_slice(&rx.bytes(32));
            let mut x = vb[0].clone();
            x.uid = 100;
            x.htlc_id = 100;
            x.scid = "77x7x7".into();
            x.htlc_hash = xh;
            x.amount_msat = 5000 + rx.below(100_000);
            x.forward_msat = Some(x.amount_msat);
            x.cltv_expiry = cfg.start_height + cfg.policy_delta as u32 + 3; // lower than B's parts
            x.label = ref_label(&xh, &x.onion_scid, &x.forward_msat, &x.metadata, true);
            let info = HashInfo { idx: 1, preimage: [0u8; 32], hash: xh, hex: hex::encode(xh), tramp: hb.tramp.clone(), recipient: Recipient::FailAll };
            htlcs.insert(1, x);
            hashes.push(hb);
            hashes.push(info);
        } else {
            hashes.push(hb);
        }
        Plan { cfg, local_sk, local_pk, hashes, htlcs }
    }
}

pub fn run_intruder_pair(st: &mut C14Stats, shape: &BShape, script: &Script, seed: u64) {
    let seed_b = mix(seed, 2);
    let seed_x = mix(seed, 3);
    let solo = run_one(RunOpts { seed, profile: Profile::Mixed, thorough: false, log_events: false, script: Some(script.clone()), plan_override: Some(Box::new(plan_intruder(false, shape.clone(), seed_b, seed_x))), target: None });
    let duo = run_one(RunOpts { seed, profile: Profile::Mixed, thorough: false, log_events: false, script: Some(script.clone()), plan_override: Some(Box::new(plan_intruder(true, shape.clone(), seed_b, seed_x))), target: None });
    st.pairs += 1;
    let b_hex = solo.hash_hex[0].clone();
    let (c1, a1) = b_trace(&solo, &b_hex);
    let (c2, a2) = b_trace(&duo, &b_hex);
    let ctx = format!("B={shape:?} script=({:?},before={},completes={},fuse={}) with an HTLC of another hash carrying B's invoice", script.pay_outcome, script.finish_before_resolve, script.part_completes, script.fuse);
    st.classes.insert(format!("intruder|n={}|kind={}|{:?}", shape.n_htlcs, shape.kind, script.pay_outcome));
    *st.evals.entry("R14a").or_insert(0) += 1;
    *st.evals.entry("R14d").or_insert(0) += 1;
    st.b_calls_compared += c1.len() as u64;
    if c1 != c2 {
        let first = c1.iter().zip(c2.iter()).position(|(x, y)| x != y).unwrap_or(c1.len().min(c2.len()));
        st.v("R14d|pooled-across-hashes|rpc-sequence-differs".into(), format!("{ctx}: first difference at #{first}: alone={:?} with-intruder={:?}", c1.get(first), c2.get(first)));
    } else if a1.iter().map(|x| &x.0).collect::<Vec<_>>() != a2.iter().map(|x| &x.0).collect::<Vec<_>>() {
        st.v("R14d|pooled-across-hashes|answers-differ".into(), format!("{ctx}: alone={a1:?} with-intruder={a2:?}"));
    }
    // the intruder itself must not get B's outcome
    for a in duo.answers.iter().filter(|a| a.hidx == Some(1)) {
        if a.json.contains("resolve") {
            st.v("R14d|intruder-got-other-hash-outcome".into(), format!("{ctx}: intruder answered {}", a.json));
        }
    }
}
