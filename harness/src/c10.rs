//! C10: the finite classification product, enumerated (one single-HTLC run per case).

use crate::enumerate::canonical_cfg;
use crate::gen::*;
use crate::plan::{fee_of, std_payload_recs, Plan, Profile};
use crate::prng::Rng;
use crate::sim::{run_one, PayOutcome, RunOpts, RunResult, Script};
use crate::world::{HashInfo, Recipient};

#[derive(Clone, Debug)]
pub struct Case {
    pub amountless: bool,
    pub signer: Signer,
    pub hints: Hints,
    pub hash_equal: bool,
    pub amt: u8,
    pub allow_self: bool,
    pub forward: bool,
    pub pay_fails: bool,
    /// the amount record precedes the invoice record in the metadata stream
    pub amt_first: bool,
}

pub fn cases() -> Vec<Case> {
    let mut v = vec![];
    for amountless in [false, true] {
        for signer in [Signer::Payee, Signer::ExplicitPayee, Signer::ExplicitPayeeWrongKey, Signer::RecoveredOther, Signer::ExplicitPayeeOtherRecid] {
            for hints in [Hints::None, Hints::Other, Hints::SelfLast, Hints::SelfNotLast, Hints::OtherThenSelfLast] {
                for hash_equal in [true, false] {
                    for amt in 0..8u8 {
                        for allow_self in [true, false] {
                            for forward in [true, false] {
                                for amt_first in [false, true] {
                                    if amt_first && amt == 0 {
                                        continue;
                                    }
                                    v.push(Case { amountless, signer: signer.clone(), hints: hints.clone(), hash_equal, amt, allow_self, forward, pay_fails: (amt + allow_self as u8) % 2 == 0, amt_first });
                                }
                            }
                        }
                    }
                }
            }
        }
    }
    v
}

fn plan_for(c: Case) -> impl FnOnce(&mut Rng) -> Plan {
    move |rng: &mut Rng| {
        let mut cfg = canonical_cfg();
        cfg.allow_self = c.allow_self;
        cfg.probe = false;
        cfg.fault_tier = 0;
        cfg.max_faults = 0;
        cfg.max_crashes = 0;
        let local_sk = secret_key(rng);
        let local_pk = pubkey(&local_sk);
        let mut pre = [0u8; 32];
        pre.copy_from_slice(&rng.bytes(32));
        let hash = sha256_of(&pre);
        let mut other = [0u8; 32];
        other.copy_from_slice(&rng.bytes(32));
        let payee_sk = secret_key(rng);
        let other_sk = secret_key(rng);
        let amount = 1_000_000u64;
        let inv_hash = if c.hash_equal { hash } else { other };
        let inv = make_invoice(&InvoiceSpec { payment_hash: inv_hash, amount_msat: if c.amountless { None } else { Some(amount) }, signer: c.signer.clone(), hints: c.hints.clone(), payee_sk, other_sk, local_pubkey: local_pk, salt: 5 });
        let base = make_invoice(&InvoiceSpec { payment_hash: hash, amount_msat: Some(1000), signer: Signer::Payee, hints: Hints::None, payee_sk, other_sk, local_pubkey: local_pk, salt: 6 });
        let invoice: lightning_invoice::Bolt11Invoice = base.bolt11.parse().unwrap();
        let tramp = crate::messages::TrampolineInfo { bolt11: base.bolt11.clone(), payee: invoice.get_payee_pub_key(), invoice, amount_msat: 1000, routing_policy: crate::messages::TrampolineRoutingPolicy { fee_base_msat: cfg.base, fee_proportional_millionths: cfg.ppm, cltv_expiry_delta: cfg.policy_delta } };
        let hashes = vec![HashInfo { idx: 0, preimage: pre, hash, hex: hex::encode(hash), tramp, recipient: Recipient::Mixed }];
        let amt = match c.amt {
            0 => AmtField::Absent,
            1 => AmtField::Bytes(tu64(amount)),
            2 => AmtField::Bytes(tu64(amount + 1)),
            3 => AmtField::Bytes(tu64(amount - 1)),
            4 => AmtField::Bytes({
                let mut b = vec![0u8; 5];
                b.extend_from_slice(&tu64(amount));
                b
            }),
            5 => AmtField::Bytes(vec![]),
            6 => AmtField::Bytes(vec![0, 0, 0, 0, 0, 0, 0x0f, 0x42, 0x40]),
            _ => AmtField::Bytes(vec![0]),
        };
        let a = ref_amount(inv.amount_msat, &amt).unwrap_or(amount);
        let need = (a as u128 + fee_of(&cfg, a)).max(amount as u128 + fee_of(&cfg, amount)) as u64 + 10;
        let expiry = cfg.start_height + 1100;
        let metadata = match (&amt, c.amt_first) {
            (AmtField::Bytes(b), true) => Metadata::Tramp { invoice: inv, amt: AmtField::Absent, extra_before: vec![(33003, b.clone())], extra_after: vec![] },
            _ => Metadata::Tramp { invoice: inv, amt, extra_before: vec![], extra_after: vec![] },
        };
        let forward = if c.forward { Some(need) } else { None };
        let label = ref_label(&hash, &None, &forward, &metadata, c.allow_self);
        let htlcs = vec![HtlcSpec {
            uid: 0,
            scid: "1x1x1".into(),
            htlc_id: 0,
            htlc_hash: hash,
            amount_msat: need,
            cltv_expiry: expiry,
            forward_msat: forward,
            total_msat: Some(need),
            onion_scid: None,
            other_recs: std_payload_recs(&mut Rng::new(7), need, expiry, Some(need)),
            metadata,
            raw_payload_hex: None,
            label,
            gate: Gate::None,
            hash_hex_override: None,
        }];
        Plan { cfg, local_sk, local_pk, hashes, htlcs }
    }
}

pub fn run_case(i: usize, c: &Case) -> RunResult {
    let script = Script { crash_at_step: None, fault_at_write: None, pay_outcome: if c.pay_fails { PayOutcome::Failed } else { PayOutcome::Complete }, finish_before_resolve: false, part_completes: !c.pay_fails, fuse: true, deliver_first: false, freeze: None };
    run_one(RunOpts { seed: 77_000 + i as u64, profile: Profile::Classify, thorough: false, log_events: false, script: Some(script), plan_override: Some(Box::new(plan_for(c.clone()))), target: Some("C10".into()) })
}
