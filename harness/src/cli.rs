//! Command line: `vmon check <ID> --tier quick|thorough --seed N`, `vmon replay <file>`,
//! `vmon run ...` (development).

use crate::checks;

pub struct Args {
    pub v: Vec<String>,
}

impl Args {
    pub fn get(&self, name: &str) -> Option<String> {
        self.v.iter().position(|a| a == name).and_then(|i| self.v.get(i + 1).cloned())
    }
    pub fn has(&self, name: &str) -> bool {
        self.v.iter().any(|a| a == name)
    }
}

pub fn main() -> i32 {
    let v: Vec<String> = std::env::args().collect();
    let args = Args { v: v.clone() };
    if v.len() < 2 {
        eprintln!("usage: vmon check <ID> --tier quick|thorough --seed N | replay <file> | run ...");
        return 2;
    }
    match v[1].as_str() {
        "check" => {
            let id = v.get(2).cloned().unwrap_or_default();
            let tier = args.get("--tier").unwrap_or("quick".into());
            let seed: u64 = args.get("--seed").and_then(|s| s.parse().ok()).unwrap_or(1);
            checks::run_check(&id, &tier, seed)
        }
        "pure-sub" => {
            let id = v.get(2).cloned().unwrap_or_default();
            let tier = args.get("--tier").unwrap_or("quick".into());
            let seed: u64 = args.get("--seed").and_then(|s| s.parse().ok()).unwrap_or(1);
            crate::checks_pure::pure_sub(&id, &tier, seed)
        }
        "replay" => checks::replay(&v.get(2).cloned().unwrap_or_default()),
        "run" => checks::dev_run(&args),
        _ => 2,
    }
}
