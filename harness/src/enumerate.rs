//! Fault enumeration (DESIGN 2.3): canonical 1- and 2-HTLC payments, every pay outcome,
//! with one crash placed at every environment step and/or one datastore write fault
//! (rejected / lost reply) placed at every write; each history is followed by restart,
//! drain and C09 probes. All online monitors run on every history.

use crate::checks::{merge, profile_name, threads, Agg};
use crate::gen::*;
use crate::plan::{fee_of, std_payload_recs, Plan, Profile};
use crate::prng::Rng;
use crate::sim::{install_panic_hook, run_one, PayOutcome, RunOpts, RunResult, Script};
use crate::world::{HashInfo, Recipient, SimCfg};
use serde_json::json;
use std::sync::atomic::{AtomicUsize, Ordering};
use std::sync::Mutex;
use std::time::Duration;

#[derive(Clone, Debug)]
pub struct Scenario {
    pub n_htlcs: usize,
    pub script: Script,
    pub stored_pending: bool,
    pub probe_aged: bool,
    pub probe_same: bool,
}

pub fn canonical_cfg() -> SimCfg {
    SimCfg {
        base: 0,
        ppm: 5000,
        policy_delta: 1008,
        cltv_delta: 34,
        mpp_timeout: Duration::from_secs(60),
        payment_timeout: Duration::from_secs(60),
        xpay: false,
        allow_self: true,
        start_height: 1000,
        fault_tier: 1,
        max_faults: 1,
        max_crashes: 1,
        max_steps: 600,
        probe: true,
        age_pending_secs: None,
        probe_age_secs: None,
        probe_same_process: false,
    }
}

pub fn canonical_plan(n_htlcs: usize, probe_aged: bool, probe_same: bool) -> impl FnOnce(&mut Rng) -> Plan {
    move |rng: &mut Rng| {
        let cfg = SimCfg {
            base: 0,
            ppm: 5000,
            policy_delta: 1008,
            cltv_delta: 34,
            mpp_timeout: Duration::from_secs(60),
            payment_timeout: Duration::from_secs(60),
            xpay: false,
            allow_self: true,
            start_height: 1000,
            fault_tier: 1,
            max_faults: 1,
            max_crashes: 1,
            max_steps: 600,
            probe: true,
            age_pending_secs: None,
            probe_age_secs: if probe_aged { Some(160) } else { None },
            probe_same_process: probe_same,
        };
        let local_sk = secret_key(rng);
        let local_pk = pubkey(&local_sk);
        let mut pre = [0u8; 32];
        pre.copy_from_slice(&rng.bytes(32));
        let hash = sha256_of(&pre);
        let payee_sk = secret_key(rng);
        let other_sk = secret_key(rng);
        let amount = 1_000_000u64;
        let inv = make_invoice(&InvoiceSpec { payment_hash: hash, amount_msat: Some(amount), signer: Signer::Payee, hints: Hints::None, payee_sk, other_sk, local_pubkey: local_pk, salt: 1 });
        let invoice: lightning_invoice::Bolt11Invoice = inv.bolt11.parse().unwrap();
        let tramp = crate::messages::TrampolineInfo {
            bolt11: inv.bolt11.clone(),
            payee: invoice.get_payee_pub_key(),
            invoice,
            amount_msat: amount,
            routing_policy: crate::messages::TrampolineRoutingPolicy { fee_base_msat: cfg.base, fee_proportional_millionths: cfg.ppm, cltv_expiry_delta: cfg.policy_delta },
        };
        let hashes = vec![HashInfo { idx: 0, preimage: pre, hash, hex: hex::encode(hash), tramp, recipient: Recipient::Mixed }];
        let need = amount as u128 + fee_of(&cfg, amount);
        let mut htlcs = vec![];
        for k in 0..n_htlcs {
            let am = if n_htlcs == 1 { need as u64 } else if k == 0 { need as u64 / 2 } else { need as u64 - need as u64 / 2 };
            let expiry = cfg.start_height + 1100;
            let metadata = Metadata::Tramp { invoice: inv.clone(), amt: AmtField::Absent, extra_before: vec![], extra_after: vec![] };
            let forward = Some(am);
            let label = ref_label(&hash, &None, &forward, &metadata, true);
            htlcs.push(HtlcSpec {
                uid: k,
                scid: "1x1x1".into(),
                htlc_id: k as u64,
                htlc_hash: hash,
                amount_msat: am,
                cltv_expiry: expiry,
                forward_msat: forward,
                total_msat: Some(need as u64),
                onion_scid: None,
                other_recs: std_payload_recs(&mut Rng::new(7), am, expiry, Some(need as u64)),
                metadata,
                raw_payload_hex: None,
                label,
                gate: Gate::None,
                hash_hex_override: None,
            });
        }
        Plan { cfg, local_sk, local_pk, hashes, htlcs }
    }
}

pub fn scenarios(thorough: bool) -> Vec<Scenario> {
    let mut v = vec![];
    let outcomes: Vec<(PayOutcome, bool, bool)> = vec![
        (PayOutcome::Complete, false, true),
        (PayOutcome::Failed, false, false),
        (PayOutcome::Failed, true, true),
        (PayOutcome::Failed, true, false),
        (PayOutcome::Pending, true, true),
        (PayOutcome::Pending, true, false),
        (PayOutcome::FailedWarn, true, true),
        (PayOutcome::FailedWarn, true, false),
        (PayOutcome::RpcError(210), true, true),
        (PayOutcome::RpcError(210), true, false),
        (PayOutcome::RpcError(-1), false, false),
    ];
    for n in [1usize, 2] {
        for (o, before, completes) in &outcomes {
            for fuse in [true, false] {
                for deliver_first in [false, true] {
                    if !thorough && (deliver_first && n == 1) {
                        continue;
                    }
                    for (probe_aged, probe_same) in [(false, false), (true, false), (false, true)] {
                    v.push(Scenario {
                        n_htlcs: n,
                        stored_pending: false,
                        probe_aged,
                        probe_same,
                        script: Script { crash_at_step: None, fault_at_write: None, pay_outcome: o.clone(), finish_before_resolve: *before, part_completes: *completes, fuse, deliver_first, freeze: None },
                    });
                    }
                }
            }
        }
    }
    v
}

fn run_scn(seed: u64, sc: &Scenario, script: Script, target: &str) -> RunResult {
    run_one(RunOpts { seed, profile: Profile::Crashy, thorough: false, log_events: false, script: Some(script), plan_override: Some(Box::new(canonical_plan(sc.n_htlcs, sc.probe_aged, sc.probe_same))), target: Some(target.to_string()) })
}

pub struct EnumResult {
    pub agg: Agg,
    pub scenarios: usize,
    pub histories: u64,
    pub crash_histories: u64,
    pub fault_histories: u64,
    pub combined_histories: u64,
    pub complete: bool,
}

/// Enumerate. `combine`: also place one crash and one fault together (thorough).
pub fn enumerate(target: &str, rules: &[&str], thorough: bool, wall_cap_s: u64) -> EnumResult {
    install_panic_hook();
    let scns = scenarios(thorough);
    // work items: (scenario idx, crash, fault)
    let mut items: Vec<(usize, Option<u64>, Option<(u64, &'static str)>)> = vec![];
    let mut n_crash = 0u64;
    let mut n_fault = 0u64;
    let mut n_comb = 0u64;
    for (si, sc) in scns.iter().enumerate() {
        let base = run_scn(1000 + si as u64, sc, sc.script.clone(), "-");
        let steps = base.steps;
        let writes = base.n_writes;
        items.push((si, None, None));
        for k in 0..=steps {
            items.push((si, Some(k), None));
            n_crash += 1;
        }
        for j in 0..writes + 1 {
            for kind in ["reject", "lost-reply"] {
                items.push((si, None, Some((j, kind))));
                n_fault += 1;
                if thorough && sc.script.fuse {
                    // crash at every step after (and a few before) the fault
                    for k in 0..=steps + 6 {
                        items.push((si, Some(k), Some((j, kind))));
                        n_comb += 1;
                    }
                }
            }
        }
    }
    let next = AtomicUsize::new(0);
    let agg = Mutex::new(Agg::new(rules));
    let t0 = std::time::Instant::now();
    let complete = std::sync::atomic::AtomicBool::new(true);
    std::thread::scope(|s| {
        for _ in 0..threads() {
            s.spawn(|| {
                let mut local = Agg::new(rules);
                loop {
                    let i = next.fetch_add(1, Ordering::Relaxed);
                    if i >= items.len() {
                        break;
                    }
                    if t0.elapsed().as_secs() > wall_cap_s {
                        complete.store(false, Ordering::Relaxed);
                        break;
                    }
                    let (si, crash, fault) = items[i].clone();
                    let sc = &scns[si];
                    let mut script = sc.script.clone();
                    script.crash_at_step = crash;
                    script.fault_at_write = fault;
                    let seed = 1000 + si as u64;
                    let r = match std::panic::catch_unwind(std::panic::AssertUnwindSafe(|| run_scn(seed, sc, script.clone(), target))) {
                        Ok(r) => r,
                        Err(_) => {
                            crate::sim::PANICS.with(|p| p.borrow_mut().clear());
                            *local.inconclusive.entry(format!("harness panic in scenario {si}")).or_insert(0) += 1;
                            continue;
                        }
                    };
                    if local.samples.len() < 2 && crash.is_some() && i % 97 == 0 {
                        local.samples.push(json!({"scenario": format!("{:?}", sc), "crash_at_step": crash, "fault_at_write": fault.map(|f| format!("{}:{}", f.0, f.1)), "summary": r.summary}));
                    }
                    // tag the violation seed with the item index so it can be replayed
                    let mut r = r;
                    r.seed = i as u64;
                    local.absorb(&r, &format!("enum:{}", profile_name(&Profile::Crashy)), target);
                }
                merge(&mut agg.lock().unwrap(), local);
            });
        }
    });
    EnumResult { agg: agg.into_inner().unwrap(), scenarios: scns.len(), histories: items.len() as u64, crash_histories: n_crash, fault_histories: n_fault, combined_histories: n_comb, complete: complete.load(Ordering::Relaxed) }
}

/// Re-run one enumerated history with the event log on.
pub fn replay_item(thorough: bool, idx: usize) -> Option<RunResult> {
    let scns = scenarios(thorough);
    let mut i = 0usize;
    for (si, sc) in scns.iter().enumerate() {
        let base = run_scn(1000 + si as u64, sc, sc.script.clone(), "-");
        let mut items: Vec<(Option<u64>, Option<(u64, &'static str)>)> = vec![(None, None)];
        for k in 0..=base.steps {
            items.push((Some(k), None));
        }
        for j in 0..base.n_writes + 1 {
            for kind in ["reject", "lost-reply"] {
                items.push((None, Some((j, kind))));
                if thorough && sc.script.fuse {
                    for k in 0..=base.steps + 6 {
                        items.push((Some(k), Some((j, kind))));
                    }
                }
            }
        }
        if idx < i + items.len() {
            let (crash, fault) = items[idx - i].clone();
            let mut script = sc.script.clone();
            script.crash_at_step = crash;
            script.fault_at_write = fault;
            eprintln!("scenario {si}: {:?}", script);
            return Some(run_one(RunOpts { seed: 1000 + si as u64, profile: Profile::Crashy, thorough: false, log_events: true, script: Some(script), plan_override: Some(Box::new(canonical_plan(sc.n_htlcs, sc.probe_aged, sc.probe_same))), target: None }));
        }
        i += items.len();
    }
    None
}
