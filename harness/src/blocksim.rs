//! Block-watcher level simulation (C20): the real BlockWatcher (start / poll loop /
//! new_block / current_height) under virtual time against heights the environment controls.

use crate::block_watcher::{BlockProvider, BlockWatcher};
use crate::messages::BlockAdded;
use crate::node::{RpcErr, RpcResult};
use crate::prng::{mix, Rng};
use crate::rpc::{Rpc, Submitted, Transport};
use futures::FutureExt;
use serde_json::Value;
use std::collections::{BTreeMap, BTreeSet};
use std::sync::{Arc, Mutex};
use std::time::Duration;
use tokio::sync::oneshot;

struct Poll {
    id: u64,
    tx: Option<oneshot::Sender<RpcResult>>,
    /// height snapshot taken when the effect was applied (None = not yet applied)
    snap: Option<u32>,
}

struct BEnv {
    height: u32,
    polls: Vec<Poll>,
    next: u64,
    told_max: u32,
    log: Vec<String>,
    node: crate::node::Node,
}

struct BTransport {
    env: Arc<Mutex<BEnv>>,
}

impl Transport for BTransport {
    fn submit(&self, method: &str, _params: Value) -> Submitted {
        let mut e = self.env.lock().unwrap();
        if method != "getinfo" {
            return Submitted::Now(Err(RpcErr::new(-32601, "unexpected")));
        }
        let (tx, rx) = oneshot::channel();
        let id = e.next;
        e.next += 1;
        e.log.push(format!("poll #{id} issued"));
        e.polls.push(Poll { id, tx: Some(tx), snap: None });
        Submitted::Later(rx)
    }
}

#[derive(Default)]
pub struct BStats {
    pub runs: u64,
    pub evals: BTreeMap<&'static str, u64>,
    pub classes: BTreeMap<&'static str, BTreeSet<u64>>,
    pub violations: BTreeMap<String, (u64, String)>,
    pub traces: BTreeSet<u64>,
    pub samples: Vec<String>,
    pub steps: u64,
}

impl BStats {
    fn eval(&mut self, r: &'static str, c: u64) {
        *self.evals.entry(r).or_insert(0) += 1;
        self.classes.entry(r).or_default().insert(c);
    }
    pub fn merge(&mut self, o: BStats) {
        self.runs += o.runs;
        self.steps += o.steps;
        for (k, v) in o.evals {
            *self.evals.entry(k).or_insert(0) += v;
        }
        for (k, v) in o.classes {
            self.classes.entry(k).or_default().extend(v);
        }
        for (k, (n, w)) in o.violations {
            let e = self.violations.entry(k).or_insert((0, w));
            e.0 += n;
        }
        self.traces.extend(o.traces);
        if self.samples.len() < 4 {
            self.samples.extend(o.samples);
        }
    }
}

/// Spends all but `left` units of the calling task's cooperative budget, so that the task is
/// suspended (as the multi-threaded runtime may suspend it at any await) at the `left`+1-th
/// budget-consuming await that follows: tokio mutex/channel/timer operations.
pub async fn burn(left: u32) {
    for _ in 0..(128u32.saturating_sub(left)) {
        tokio::task::consume_budget().await;
    }
}

pub fn run_block(seed: u64, faults: bool, st: &mut BStats) {
    let mut rng = Rng::new(seed);
    tokio::chaos::configure(crate::prng::mix(seed, 5152), *Rng::new(crate::prng::mix(seed, 5151)).pick(&[0u64, 0, 30]));
    let start_h = *rng.pick(&[0u32, 1, 100, 800_000, u32::MAX - 50]);
    let env = Arc::new(Mutex::new(BEnv { height: start_h, polls: vec![], next: 1, told_max: 0, log: vec![], node: crate::node::Node::new(start_h, "0279be667ef9dcbbac55a06295ce870b07029bfcdb2dce28d959f2815b16f81798") }));
    let rt = tokio::runtime::Builder::new_current_thread().enable_time().start_paused(true).build().unwrap();
    let mut sig = 0u64;
    let mut viol: Vec<(String, String)> = vec![];
    let mut local_evals: Vec<(&'static str, u64)> = vec![];
    rt.block_on(async {
        let rpc = Arc::new(Rpc::with_transport(Arc::new(BTransport { env: env.clone() })));
        let slot: Arc<Mutex<Option<Arc<BlockWatcher>>>> = Arc::new(Mutex::new(None));
        let slot2 = slot.clone();
        tokio::spawn(async move {
            let mut bw = BlockWatcher::new(rpc);
            let (tx, rx) = tokio::sync::mpsc::channel(1);
            if bw.start(rx).await.is_ok() {
                std::mem::forget(tx);
                *slot2.lock().unwrap() = Some(Arc::new(bw));
            }
        });
        let answer = |e: &mut BEnv, idx: usize, fail: bool| {
            let p = &mut e.polls[idx];
            let h = p.snap.unwrap_or(e.height);
            let res = if fail {
                Err(RpcErr::new(-1, "injected getinfo failure"))
            } else {
                e.node.height = h;
                e.told_max = e.told_max.max(h);
                e.node.getinfo()
            };
            if let Some(tx) = p.tx.take() {
                let _ = tx.send(res);
            }
            let id = p.id;
            e.log.push(format!("poll #{id} answered h={h} fail={fail}"));
            e.polls.remove(idx);
        };
        // pending (delayed) notifications
        let mut delayed: Vec<u32> = vec![];
        let n_steps = 10 + rng.below(40);
        let mut first_poll_done = false;
        for step in 0..n_steps + 80 {
            tokio::time::sleep(Duration::from_millis(1)).await;
            let bw = slot.lock().unwrap().clone();
            // R20a
            if let Some(bw) = &bw {
                if let Some(h) = tokio::chaos::quiet(|| bw.current_height().now_or_never()) {
                    let e = env.lock().unwrap();
                    local_evals.push(("R20a", (h == e.told_max) as u64 | (((e.told_max < e.height) as u64) << 1)));
                    if h != e.told_max {
                        viol.push(("R20a|height-not-max-told".into(), format!("current_height {h} != max told {}; log: {}", e.told_max, e.log.join(" ; "))));
                        return;
                    }
                }
            }
            let calm = step >= n_steps;
            let mut e = env.lock().unwrap();
            if calm {
                // calm phase: no new blocks, notifications lost, polls answered at once
                if step == n_steps {
                    e.log.push("CALM".into());
                    delayed.clear();
                }
                while !e.polls.is_empty() {
                    answer(&mut e, 0, false);
                }
                drop(e);
                if step < n_steps + 61 {
                    tokio::time::sleep(Duration::from_millis(1000)).await;
                    continue;
                }
                // 61 s (+ the 1 ms quiescence steps) after the calm phase began
                tokio::time::sleep(Duration::from_millis(5)).await;
                let mut e = env.lock().unwrap();
                while !e.polls.is_empty() {
                    answer(&mut e, 0, false);
                }
                drop(e);
                tokio::time::sleep(Duration::from_millis(1)).await;
                if let Some(bw) = &bw {
                    let h = tokio::chaos::quiet(|| bw.current_height().now_or_never());
                    let e = env.lock().unwrap();
                    local_evals.push(("R20b", (h == Some(e.height)) as u64));
                    if h != Some(e.height) {
                        viol.push(("R20b|not-caught-up-within-one-poll".into(), format!("node height {} stable for 61 s with polls answered at once, plugin height {h:?}; log: {}", e.height, e.log.join(" ; "))));
                    }
                }
                return;
            }
            // chaos phase
            let choice = rng.weighted(&[6, 4, 4, 3, 3, 2, 3, 3]);
            sig = mix(sig, choice as u64 | ((e.polls.len().min(3) as u64) << 4) | ((delayed.len().min(3) as u64) << 6) | (((e.told_max < e.height) as u64) << 8));
            match choice {
                0 => {
                    // mine 1..3 blocks; notification delivered / lost / delayed / duplicated
                    let n = 1 + rng.below(3) as u32;
                    e.height = e.height.saturating_add(n);
                    let h = e.height;
                    let mode = rng.below(4);
                    e.log.push(format!("block h={h} mode={mode}"));
                    if let Some(bw) = &bw {
                        match mode {
                            0 => {
                                e.told_max = e.told_max.max(h);
                                let b = bw.clone();
                                tokio::spawn(async move { b.new_block(&BlockAdded { height: h }).await });
                            }
                            1 => {}
                            2 => delayed.push(h),
                            _ => {
                                e.told_max = e.told_max.max(h);
                                for _ in 0..2 {
                                    let b = bw.clone();
                                    tokio::spawn(async move { b.new_block(&BlockAdded { height: h }).await });
                                }
                            }
                        }
                    }
                }
                1 => {
                    // apply the effect of a poll (snapshot) without replying yet
                    let h = e.height;
                    if let Some(p) = e.polls.iter_mut().find(|p| p.snap.is_none()) {
                        p.snap = Some(h);
                    }
                }
                2 => {
                    if !e.polls.is_empty() {
                        let idx = rng.below(e.polls.len() as u64) as usize;
                        let fail = faults && first_poll_done && rng.chance(1, 4);
                        answer(&mut e, idx, fail);
                        first_poll_done = true;
                    }
                }
                3 => {
                    // deliver a delayed (possibly stale / reordered) notification
                    if !delayed.is_empty() {
                        let idx = rng.below(delayed.len() as u64) as usize;
                        let h = delayed.remove(idx);
                        e.log.push(format!("late notification h={h}"));
                        if let Some(bw) = &bw {
                            e.told_max = e.told_max.max(h);
                            let b = bw.clone();
                            tokio::spawn(async move { b.new_block(&BlockAdded { height: h }).await });
                        }
                    }
                }
                4 => {
                    // arbitrary stale or repeated height
                    if let Some(bw) = &bw {
                        let h = if rng.chance(1, 2) { e.told_max.saturating_sub(rng.below(5) as u32) } else { 0 };
                        e.log.push(format!("stale notification h={h}"));
                        e.told_max = e.told_max.max(h);
                        let b = bw.clone();
                        tokio::spawn(async move { b.new_block(&BlockAdded { height: h }).await });
                    }
                }
                5 => {
                    drop(e);
                    tokio::time::sleep(Duration::from_millis(61_000)).await;
                }
                7 => {
                    // two notifications handled at the same instant, the first one suspended
                    // at its 1st..3rd await (what two runtime workers do to each other)
                    if let Some(bw) = &bw {
                        e.height = e.height.saturating_add(2);
                        let h = e.height;
                        let (first, second) = if rng.chance(1, 2) { (h.saturating_sub(1), h) } else { (h, h.saturating_sub(1)) };
                        let left = rng.below(3) as u32;
                        e.log.push(format!("pair first={first} (suspended at await {left}) second={second}"));
                        e.told_max = e.told_max.max(h);
                        local_evals.push(("R20a-preempt", left as u64 | (((first < second) as u64) << 2)));
                        let b = bw.clone();
                        tokio::spawn(async move {
                            burn(left).await;
                            b.new_block(&BlockAdded { height: first }).await
                        });
                        let b = bw.clone();
                        tokio::spawn(async move { b.new_block(&BlockAdded { height: second }).await });
                        if rng.chance(1, 2) && !e.polls.is_empty() {
                            answer(&mut e, 0, false);
                        }
                    }
                }
                _ => {
                    drop(e);
                    tokio::time::sleep(Duration::from_millis(1000 * (1 + rng.below(30)))).await;
                }
            }
        }
    });
    drop(rt);
    st.runs += 1;
    st.traces.insert(sig);
    for (r, c) in local_evals {
        st.eval(r, c);
    }
    let e = env.lock().unwrap();
    st.steps += e.log.len() as u64;
    if st.samples.len() < 2 && e.log.len() > 12 {
        st.samples.push(e.log.join(" ; ").chars().take(600).collect());
    }
    for (sig, w) in viol {
        let x = st.violations.entry(sig).or_insert((0, w));
        x.0 += 1;
    }
}
