//! Driver-level simulation (C17): the real cln_plugin Builder / PluginDriver / codecs over an
//! in-memory duplex pipe. The input byte stream is cut into read chunks at hostile offsets;
//! handlers are released by the scheduler in arbitrary order.

use crate::cln_plugin::{Builder, Plugin};
use crate::prng::{mix, Rng};
use serde_json::{json, Value};
use std::collections::{BTreeMap, BTreeSet};
use std::sync::{Arc, Mutex};
use std::time::Duration;
use tokio::io::{AsyncReadExt, AsyncWriteExt};
use tokio::sync::oneshot;

#[derive(Default)]
pub struct DShared {
    /// markers in the order the dispatcher handed requests to the callbacks (decode order)
    observed: Vec<String>,
    gates: Vec<(String, oneshot::Sender<()>)>,
    notif_observed: Vec<String>,
}

type St = Arc<Mutex<DShared>>;

#[derive(Default)]
pub struct DStats {
    pub runs: u64,
    pub evals: BTreeMap<&'static str, u64>,
    pub classes: BTreeMap<&'static str, BTreeSet<u64>>,
    pub violations: BTreeMap<String, (u64, String)>,
    pub traces: BTreeSet<u64>,
    pub samples: Vec<String>,
    pub chunks: u64,
    pub max_inflight: u64,
    pub out_of_order: u64,
    pub split_offsets: BTreeSet<i64>,
    pub utf8_splits: u64,
}

impl DStats {
    fn eval(&mut self, r: &'static str, c: u64) {
        *self.evals.entry(r).or_insert(0) += 1;
        self.classes.entry(r).or_default().insert(c);
    }
    fn violate(&mut self, sig: &str, w: String) {
        let e = self.violations.entry(sig.to_string()).or_insert((0, w));
        e.0 += 1;
    }
    pub fn merge(&mut self, o: DStats) {
        self.runs += o.runs;
        self.chunks += o.chunks;
        self.utf8_splits += o.utf8_splits;
        self.out_of_order += o.out_of_order;
        self.max_inflight = self.max_inflight.max(o.max_inflight);
        for (k, v) in o.evals {
            *self.evals.entry(k).or_insert(0) += v;
        }
        for (k, v) in o.classes {
            self.classes.entry(k).or_default().extend(v);
        }
        for (k, (n, w)) in o.violations {
            let e = self.violations.entry(k).or_insert((0, w));
            e.0 += n;
        }
        self.traces.extend(o.traces);
        self.split_offsets.extend(o.split_offsets);
        if self.samples.len() < 4 {
            self.samples.extend(o.samples);
        }
    }
}

const STRS: [&str; 6] = ["plain", "é", "漢字", "😀 emoji", "line\\nbreak", "a\u{00a0}b\u{2028}c"];

#[derive(Clone, Copy, PartialEq, Debug)]
pub enum ChunkMode {
    /// one byte per read
    Bytes,
    /// whole messages
    Whole,
    /// cut at every offset inside each separator (-1, 0, +1 relative to its first \n)
    Separators,
    /// cut inside multi-byte characters
    Utf8,
    /// random sizes
    Random,
    /// several messages per read
    Batched,
}

pub fn run_driver(seed: u64, mode: ChunkMode, st: &mut DStats) {
    let mut rng = Rng::new(seed);
    // yields in front of the driver's output-lock acquisitions (vtokio) in one run out of three
    tokio::chaos::configure(crate::prng::mix(seed, 5152), *Rng::new(crate::prng::mix(seed, 5151)).pick(&[0u64, 0, 30]));
    let n_calls = 1 + rng.below(if mode == ChunkMode::Bytes { 6 } else { 64 }) as usize;
    // ----- build the input stream
    let mut msgs: Vec<Value> = vec![
        json!({"jsonrpc": "2.0", "id": "gm-1", "method": "getmanifest", "params": {"allow-deprecated-apis": false}}),
        json!({"jsonrpc": "2.0", "id": 2, "method": "init", "params": {"options": {}, "configuration": {"lightning-dir": "/tmp/é", "rpc-file": "lightning-rpc", "startup": true, "network": "regtest", "feature_set": {"init": "", "node": "", "channel": "", "invoice": ""}}}}),
    ];
    let mut expect_ids: Vec<Value> = vec![];
    let mut expect_markers: Vec<String> = vec![];
    let mut expect_notifs: Vec<String> = vec![];
    for i in 0..n_calls {
        let marker = format!("m{i}-{}", STRS[rng.below(6) as usize]);
        if rng.chance(1, 5) {
            // one notification in four makes its handler fail (e.g. a shape the handler cannot
            // deserialize); that must not disturb any request
            let fail = rng.chance(1, 4);
            msgs.push(json!({"jsonrpc": "2.0", "method": "block_added", "params": {"marker": marker, "fail": fail, "block_added": {"hash": "00", "height": i}}}));
            expect_notifs.push(marker);
        } else {
            let id: Value = if rng.chance(1, 2) { json!(100 + i) } else { json!(format!("cln:htlc_accepted#{i}/é")) };
            msgs.push(json!({"jsonrpc": "2.0", "id": id, "method": "htlc_accepted", "params": {"marker": marker, "pad": "x".repeat(rng.below(200) as usize)}}));
            expect_ids.push(id);
            expect_markers.push(marker);
        }
    }
    let mut stream: Vec<u8> = vec![];
    let mut sep_pos: Vec<usize> = vec![];
    for m in &msgs {
        stream.extend_from_slice(m.to_string().as_bytes());
        sep_pos.push(stream.len());
        stream.extend_from_slice(b"\n\n");
    }
    // ----- chunk boundaries
    let mut cuts: BTreeSet<usize> = BTreeSet::new();
    match mode {
        ChunkMode::Bytes => {
            for i in 1..stream.len() {
                cuts.insert(i);
            }
        }
        ChunkMode::Whole => {
            for s in &sep_pos {
                cuts.insert(s + 2);
            }
        }
        ChunkMode::Separators => {
            for s in &sep_pos {
                let off = rng.below(4) as usize; // before first \n, between, after, +1
                cuts.insert((s + off).min(stream.len()));
                if rng.chance(1, 3) {
                    cuts.insert((s + 1).min(stream.len()));
                }
            }
        }
        ChunkMode::Utf8 => {
            for (i, b) in stream.iter().enumerate() {
                if (*b & 0xC0) == 0x80 && rng.chance(2, 3) {
                    cuts.insert(i);
                }
            }
        }
        ChunkMode::Random => {
            let mut i = 0;
            while i < stream.len() {
                let m = *rng.pick(&[3u64, 40, 400, 4000]);
                i += 1 + rng.below(m) as usize;
                cuts.insert(i.min(stream.len()));
            }
        }
        ChunkMode::Batched => {
            for (k, s) in sep_pos.iter().enumerate() {
                if k % 3 == 2 || k < 2 {
                    cuts.insert(s + 2);
                }
            }
        }
    }
    cuts.insert(stream.len());
    // the handshake needs the first two messages delivered before anything is answered; any cut is fine
    let mut sig = mode as u64;
    for c in &cuts {
        for s in &sep_pos {
            let d = *c as i64 - *s as i64;
            if (-1..=3).contains(&d) {
                st.split_offsets.insert(d);
                sig = mix(sig, d as u64);
            }
        }
        if *c < stream.len() && (stream[*c] & 0xC0) == 0x80 {
            st.utf8_splits += 1;
        }
    }
    st.chunks += cuts.len() as u64;

    let shared: St = Arc::new(Mutex::new(DShared::default()));
    let rt = tokio::runtime::Builder::new_current_thread().enable_time().start_paused(true).build().unwrap();
    let out_bytes: Arc<Mutex<Vec<u8>>> = Arc::new(Mutex::new(vec![]));
    let mut completion_order: Vec<String> = vec![];
    let mut max_inflight = 0usize;
    let failed: Arc<Mutex<Option<String>>> = Arc::new(Mutex::new(None));
    rt.block_on(async {
        let (mut to_plugin, plugin_in) = tokio::io::duplex(1 << 20);
        let (plugin_out, mut from_plugin) = tokio::io::duplex(1 << 22);
        let sh = shared.clone();
        let sh2 = shared.clone();
        let builder = Builder::new(plugin_in, plugin_out)
            .with_logging(false)
            .hook("htlc_accepted", move |_p: Plugin<St>, v: Value| {
                // synchronous part: runs in the dispatcher, in decode order
                let marker = v.get("marker").and_then(|m| m.as_str()).unwrap_or("?").to_string();
                let (tx, rx) = oneshot::channel();
                {
                    let mut s = sh.lock().unwrap();
                    s.observed.push(marker.clone());
                    s.gates.push((marker.clone(), tx));
                }
                async move {
                    let _ = rx.await;
                    Ok(json!({"result": "continue", "echo": marker}))
                }
            })
            .subscribe("block_added", move |_p: Plugin<St>, v: Value| {
                let marker = v.get("marker").and_then(|m| m.as_str()).unwrap_or("?").to_string();
                sh2.lock().unwrap().notif_observed.push(marker);
                let fail = v.get("fail").and_then(|f| f.as_bool()).unwrap_or(false);
                async move {
                    if fail {
                        Err(anyhow::anyhow!("notification handler failed"))
                    } else {
                        Ok(())
                    }
                }
            });
        let state = shared.clone();
        let failed2 = failed.clone();
        tokio::spawn(async move {
            match builder.start(state).await {
                Ok(Some(p)) => {
                    let _ = p.join().await;
                }
                Ok(None) => *failed2.lock().unwrap() = Some("builder.start returned None".into()),
                Err(e) => *failed2.lock().unwrap() = Some(format!("builder.start failed: {e}")),
            }
        });
        let ob = out_bytes.clone();
        tokio::spawn(async move {
            let mut buf = vec![0u8; 65536];
            loop {
                match from_plugin.read(&mut buf).await {
                    Ok(0) | Err(_) => break,
                    Ok(n) => ob.lock().unwrap().extend_from_slice(&buf[..n]),
                }
            }
        });
        // feed chunks, releasing handlers at random points
        let mut prev = 0usize;
        let cut_list: Vec<usize> = cuts.iter().copied().collect();
        for c in cut_list {
            if c <= prev {
                continue;
            }
            if to_plugin.write_all(&stream[prev..c]).await.is_err() {
                break;
            }
            prev = c;
            tokio::time::sleep(Duration::from_millis(1)).await;
            let mut s = shared.lock().unwrap();
            max_inflight = max_inflight.max(s.gates.len());
            // release some handlers, in arbitrary order
            while !s.gates.is_empty() && rng.chance(1, 3) {
                let k = rng.below(s.gates.len() as u64) as usize;
                let (m, tx) = s.gates.remove(k);
                completion_order.push(m);
                let _ = tx.send(());
            }
        }
        // release the rest in random order
        loop {
            tokio::time::sleep(Duration::from_millis(1)).await;
            let mut s = shared.lock().unwrap();
            max_inflight = max_inflight.max(s.gates.len());
            if s.gates.is_empty() {
                break;
            }
            let k = rng.below(s.gates.len() as u64) as usize;
            let (m, tx) = s.gates.remove(k);
            completion_order.push(m);
            let _ = tx.send(());
        }
        for _ in 0..5 {
            tokio::time::sleep(Duration::from_millis(1)).await;
        }
    });
    drop(rt);
    st.runs += 1;
    st.traces.insert(mix(sig, n_calls as u64));
    st.max_inflight = st.max_inflight.max(max_inflight as u64);
    let s = shared.lock().unwrap();
    let out = out_bytes.lock().unwrap().clone();
    let ctx = format!("mode={mode:?} seed={seed} calls={n_calls} chunks={}", cuts.len());
    if let Some(f) = failed.lock().unwrap().clone() {
        st.violate("R17a|handshake-failed", format!("{f}; {ctx}"));
        return;
    }
    // R17a: every request observed exactly once, in order
    st.eval("R17a", (mode as u64) | ((n_calls.min(63) as u64) << 4));
    if s.observed != expect_markers {
        st.violate("R17a|requests-not-observed-once-in-order", format!("expected {:?} observed {:?}; {ctx}", expect_markers, s.observed));
    }
    if s.notif_observed != expect_notifs {
        st.violate("R17a|notifications-not-observed-once-in-order", format!("expected {:?} observed {:?}; {ctx}", expect_notifs, s.notif_observed));
    }
    // R17c: output is a sequence of complete JSON documents each followed by a blank line
    st.eval("R17c", mode as u64);
    let text = match String::from_utf8(out.clone()) {
        Ok(t) => t,
        Err(_) => {
            st.violate("R17c|output-not-utf8", ctx.clone());
            return;
        }
    };
    if !text.is_empty() && !text.ends_with("\n\n") {
        st.violate("R17c|output-not-terminated", format!("tail {:?}; {ctx}", &text[text.len().saturating_sub(40)..]));
    }
    let mut replies: Vec<Value> = vec![];
    for doc in text.split("\n\n").filter(|d| !d.is_empty()) {
        match serde_json::from_str::<Value>(doc) {
            Ok(v) => replies.push(v),
            Err(e) => {
                st.violate("R17c|output-document-not-json", format!("{e}: {:?}; {ctx}", doc.chars().take(120).collect::<String>()));
                return;
            }
        }
    }
    // R17b: exactly one reply per id, id echoed, carrying that request's result
    st.eval("R17b", (completion_order != expect_markers) as u64 | ((max_inflight.min(63) as u64) << 1));
    if completion_order != expect_markers {
        st.out_of_order += 1;
    }
    let mut want: Vec<Value> = vec![json!("gm-1"), json!(2)];
    want.extend(expect_ids.iter().cloned());
    for (k, id) in want.iter().enumerate() {
        let mine: Vec<&Value> = replies.iter().filter(|r| r.get("id") == Some(id)).collect();
        if mine.len() != 1 {
            st.violate("R17b|not-exactly-one-reply-per-id", format!("id {id} has {} replies; {ctx}", mine.len()));
            return;
        }
        if k >= 2 {
            let echo = mine[0]["result"]["echo"].as_str().unwrap_or("");
            if echo != expect_markers[k - 2] {
                st.violate("R17b|reply-carries-other-requests-result", format!("id {id} got echo {echo:?}, expected {:?}; {ctx}", expect_markers[k - 2]));
                return;
            }
        }
    }
    if replies.len() != want.len() {
        st.violate("R17b|unexpected-extra-output", format!("{} documents for {} requests; {ctx}", replies.len(), want.len()));
    }
    if st.samples.len() < 2 {
        st.samples.push(format!("{ctx}; completion order {:?}", completion_order.iter().take(8).collect::<Vec<_>>()));
    }
}
