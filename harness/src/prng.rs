//! Small deterministic PRNG (xoshiro256** seeded via splitmix64). No external crate so
//! the harness dependency set stays equal to /repo's.

#[derive(Clone, Debug)]
pub struct Rng {
    s: [u64; 4],
}

fn splitmix(x: &mut u64) -> u64 {
    *x = x.wrapping_add(0x9E3779B97F4A7C15);
    let mut z = *x;
    z = (z ^ (z >> 30)).wrapping_mul(0xBF58476D1CE4E5B9);
    z = (z ^ (z >> 27)).wrapping_mul(0x94D049BB133111EB);
    z ^ (z >> 31)
}

pub fn mix(a: u64, b: u64) -> u64 {
    let mut x = a ^ b.rotate_left(32) ^ 0xD6E8FEB86659FD93;
    splitmix(&mut x);
    splitmix(&mut x)
}

pub fn hash_str(s: &str) -> u64 {
    let mut h: u64 = 0xcbf29ce484222325;
    for b in s.bytes() {
        h ^= b as u64;
        h = h.wrapping_mul(0x100000001b3);
    }
    h
}

impl Rng {
    pub fn new(seed: u64) -> Self {
        let mut x = seed;
        let s = [
            splitmix(&mut x),
            splitmix(&mut x),
            splitmix(&mut x),
            splitmix(&mut x),
        ];
        Rng { s }
    }
    pub fn u64(&mut self) -> u64 {
        let r = self.s[1].wrapping_mul(5).rotate_left(7).wrapping_mul(9);
        let t = self.s[1] << 17;
        self.s[2] ^= self.s[0];
        self.s[3] ^= self.s[1];
        self.s[1] ^= self.s[2];
        self.s[0] ^= self.s[3];
        self.s[2] ^= t;
        self.s[3] = self.s[3].rotate_left(45);
        r
    }
    /// uniform in [0, n)
    pub fn below(&mut self, n: u64) -> u64 {
        if n == 0 {
            return 0;
        }
        self.u64() % n
    }
    pub fn range(&mut self, lo: u64, hi_incl: u64) -> u64 {
        if hi_incl <= lo {
            return lo;
        }
        let span = hi_incl - lo;
        if span == u64::MAX {
            return self.u64();
        }
        lo + self.below(span + 1)
    }
    pub fn chance(&mut self, num: u64, den: u64) -> bool {
        self.below(den) < num
    }
    pub fn pick<'a, T>(&mut self, v: &'a [T]) -> &'a T {
        &v[self.below(v.len() as u64) as usize]
    }
    pub fn bytes(&mut self, n: usize) -> Vec<u8> {
        (0..n).map(|_| self.u64() as u8).collect()
    }
    /// random byte string of random length < max
    pub fn rbytes(&mut self, max: u64) -> Vec<u8> {
        let n = self.below(max) as usize;
        self.bytes(n)
    }
    pub fn shuffle<T>(&mut self, v: &mut [T]) {
        for i in (1..v.len()).rev() {
            let j = self.below(i as u64 + 1) as usize;
            v.swap(i, j);
        }
    }
    /// weighted choice over weights; returns index
    pub fn weighted(&mut self, w: &[u64]) -> usize {
        let tot: u64 = w.iter().sum();
        if tot == 0 {
            return 0;
        }
        let mut x = self.below(tot);
        for (i, wi) in w.iter().enumerate() {
            if x < *wi {
                return i;
            }
            x -= wi;
        }
        w.len() - 1
    }
}
