//! Provider-level simulation (C15, C16): the real PayPaymentProvider<Rpc>::wait_payment /
//! pay driven directly against SimNode, every interleaving of RPC effects with part
//! resolutions enumerated depth-first (bounded), oracles evaluated at the instant of return.

use crate::node::{Node, PartStatus, RpcErr, RpcResult};
use crate::payment_provider::{PayPaymentProvider, PaymentProvider, PaymentRequest};
use crate::rpc::{Rpc, Submitted, Transport};
use secp256k1::hashes::{sha256, Hash};
use serde_json::Value;
use std::collections::{BTreeMap, BTreeSet};
use std::sync::{Arc, Mutex};
use std::time::Duration;
use tokio::sync::oneshot;

#[derive(Clone, Debug, PartialEq)]
enum CState {
    Issued,
    Blocked(usize),
    PayRunning(u64),
    Done,
}

struct PCall {
    id: u64,
    method: String,
    params: Value,
    state: CState,
    tx: Option<oneshot::Sender<RpcResult>>,
}

pub struct PEnv {
    node: Node,
    calls: Vec<PCall>,
    next_id: u64,
    preimage: [u8; 32],
    hash_hex: String,
    log: Vec<String>,
    result: Option<Result<Option<Vec<u8>>, String>>,
    returned_state: Option<(usize, usize, bool)>,
    faults_left: u32,
    fault_used: bool,
}

type SharedP = Arc<Mutex<PEnv>>;

struct PTransport {
    env: SharedP,
}

impl Transport for PTransport {
    fn submit(&self, method: &str, params: Value) -> Submitted {
        let mut e = self.env.lock().unwrap();
        let (tx, rx) = oneshot::channel();
        let id = e.next_id;
        e.next_id += 1;
        e.log.push(format!("CALL #{id} {method} {}", crate::world::short(&params)));
        e.calls.push(PCall { id, method: method.to_string(), params, state: CState::Issued, tx: Some(tx) });
        Submitted::Later(rx)
    }
}

#[derive(Clone, Debug, PartialEq)]
enum PStep {
    Apply(u64),
    Fault(u64, i32),
    AddPart(u64),
    Resolve(usize, bool, i32),
    Finish(u64, u8),
    Advance,
    /// waitsendpay that carries a timeout answers 200 while its part is still pending
    WaitTimeout(u64),
}

#[derive(Clone, Debug)]
pub struct PScenario {
    /// which function: false = wait_payment, true = pay
    pub pay: bool,
    /// initial parts (wait_payment): statuses
    pub initial: Vec<PartStatus>,
    /// allowed failure codes for parts
    pub codes: Vec<i32>,
    /// max parts a running pay may create
    pub max_parts: u64,
    /// number of read faults (F2) that may be injected
    pub faults: u32,
    /// groupid of each initial part (earlier attempts have lower group ids); empty = all 1
    pub groups: Vec<u64>,
    /// first initial part has partid 0 (omitted in listsendpays, as lightningd does)
    pub zero_partid: bool,
    /// directed (single deterministic execution): 0 = off (enumerate); 1 = fail parts in listed
    /// order; 2 = fail in reverse order; 3 = fail all but the last listed, which completes last
    pub directed: u8,
}

#[derive(Default)]
pub struct PStats {
    pub runs: u64,
    pub evals: BTreeMap<&'static str, u64>,
    pub classes: BTreeMap<&'static str, BTreeSet<u64>>,
    pub violations: BTreeMap<String, (u64, String)>,
    pub traces: BTreeSet<u64>,
    pub samples: Vec<String>,
    pub truncated: bool,
    pub scenarios: u64,
}

impl PStats {
    fn eval(&mut self, r: &'static str, c: u64) {
        *self.evals.entry(r).or_insert(0) += 1;
        self.classes.entry(r).or_default().insert(c);
    }
    fn violate(&mut self, sig: String, w: impl FnOnce() -> String) {
        let e = self.violations.entry(sig).or_insert((0, String::new()));
        if e.0 == 0 {
            e.1 = w();
        }
        e.0 += 1;
    }
    pub fn merge(&mut self, o: PStats) {
        self.runs += o.runs;
        self.scenarios += o.scenarios;
        self.truncated |= o.truncated;
        for (k, v) in o.evals {
            *self.evals.entry(k).or_insert(0) += v;
        }
        for (k, v) in o.classes {
            self.classes.entry(k).or_default().extend(v);
        }
        for (k, (n, w)) in o.violations {
            let e = self.violations.entry(k).or_insert((0, w));
            e.0 += n;
        }
        self.traces.extend(o.traces);
        if self.samples.len() < 6 {
            self.samples.extend(o.samples);
        }
    }
}

fn enabled(e: &PEnv, sc: &PScenario) -> Vec<PStep> {
    let mut v = vec![];
    for c in &e.calls {
        if c.state == CState::Issued {
            v.push(PStep::Apply(c.id));
            if e.faults_left > 0 && c.method != "pay" {
                v.push(PStep::Fault(c.id, if c.method == "waitsendpay" { 200 } else { -1 }));
                // transport / response-parse failure: an error without a code
                v.push(PStep::Fault(c.id, 0));
            }
        }
    }
    for c in &e.calls {
        if let CState::Blocked(_) = c.state {
            if c.params.get("timeout").map(|t| !t.is_null()).unwrap_or(false) {
                v.push(PStep::WaitTimeout(c.id));
            }
        }
    }
    for p in e.node.pays.iter().filter(|p| p.running) {
        if p.parts_created < sc.max_parts {
            v.push(PStep::AddPart(p.id));
        }
        let (_, comp, _) = e.node.live_parts(&p.hash_hex);
        // 0 complete, 1 pending, 2 failed, 3 failed+warning, 4 rpc error
        if comp > 0 {
            v.push(PStep::Finish(p.id, 0));
        }
        // 1 pending, 2 failed, 3 failed+warning, 4.. rpc error codes 210/205/206/207/-1
        for o in 1..=8u8 {
            v.push(PStep::Finish(p.id, o));
        }
    }
    for (k, p) in e.node.parts.iter().enumerate() {
        if p.status == PartStatus::Pending {
            v.push(PStep::Resolve(k, true, 0));
            for c in &sc.codes {
                v.push(PStep::Resolve(k, false, *c));
            }
        }
    }
    v
}

fn exec(e: &mut PEnv, s: &PStep) {
    e.log.push(format!("STEP {s:?}"));
    match s {
        PStep::Apply(id) => {
            let idx = e.calls.iter().position(|c| c.id == *id).unwrap();
            let (m, p) = (e.calls[idx].method.clone(), e.calls[idx].params.clone());
            let res = match m.as_str() {
                "listsendpays" => Some(e.node.listsendpays(&p)),
                "waitsendpay" => match e.node.find_part(&p) {
                    None => Some(Err(RpcErr::new(208, "never attempted"))),
                    Some(k) => match e.node.waitsendpay_result(k) {
                        Some(r) => Some(r),
                        None => {
                            e.calls[idx].state = CState::Blocked(k);
                            None
                        }
                    },
                },
                "pay" => {
                    let hex_ = e.hash_hex.clone();
                    let pid = e.node.start_pay(*id, &p, &hex_);
                    e.calls[idx].state = CState::PayRunning(pid);
                    None
                }
                _ => Some(Err(RpcErr::new(-32601, "unknown"))),
            };
            if let Some(r) = res {
                if let Some(tx) = e.calls[idx].tx.take() {
                    let _ = tx.send(r);
                }
                e.calls[idx].state = CState::Done;
            }
        }
        PStep::Fault(id, code) => {
            let idx = e.calls.iter().position(|c| c.id == *id).unwrap();
            e.faults_left -= 1;
            e.fault_used = true;
            if let Some(tx) = e.calls[idx].tx.take() {
                let _ = tx.send(Err(if *code == 0 { RpcErr::transport("injected: no response from lightningd") } else { RpcErr::new(*code, "injected read fault") }));
            }
            e.calls[idx].state = CState::Done;
        }
        PStep::AddPart(pid) => {
            e.node.add_part(*pid, 1000);
        }
        PStep::Resolve(k, ok, code) => {
            if *ok {
                e.node.parts[*k].status = PartStatus::Complete;
                e.node.parts[*k].preimage = Some(e.preimage);
            } else {
                e.node.parts[*k].status = PartStatus::Failed;
                e.node.parts[*k].fail_code = Some(*code);
            }
            for ci in 0..e.calls.len() {
                if e.calls[ci].state == CState::Blocked(*k) {
                    let r = e.node.waitsendpay_result(*k).unwrap();
                    if let Some(tx) = e.calls[ci].tx.take() {
                        let _ = tx.send(r);
                    }
                    e.calls[ci].state = CState::Done;
                }
            }
        }
        PStep::Finish(pid, o) => {
            let pidx = e.node.pays.iter().position(|p| p.id == *pid).unwrap();
            let pay = e.node.pays[pidx].clone();
            let res = match o {
                0 => Ok(e.node.pay_response(&pay, "complete", false, Some(e.preimage))),
                1 => Ok(e.node.pay_response(&pay, "pending", false, None)),
                2 => Ok(e.node.pay_response(&pay, "failed", false, None)),
                3 => Ok(e.node.pay_response(&pay, "failed", true, None)),
                4 => Err(RpcErr::new(210, "pay failed")),
                5 => Err(RpcErr::new(205, "Could not find a route")),
                6 => Err(RpcErr::new(206, "Route too expensive")),
                7 => Err(RpcErr::new(207, "Invoice expired")),
                _ => Err(RpcErr::new(-1, "pay failed: unknown")),
            };
            e.node.pays[pidx].running = false;
            let ci = e.calls.iter().position(|c| c.id == pay.call_id).unwrap();
            if let Some(tx) = e.calls[ci].tx.take() {
                let _ = tx.send(res);
            }
            e.calls[ci].state = CState::Done;
        }
        PStep::Advance => {}
        PStep::WaitTimeout(id) => {
            let idx = e.calls.iter().position(|c| c.id == *id).unwrap();
            if let Some(tx) = e.calls[idx].tx.take() {
                let _ = tx.send(Err(RpcErr::new(200, "Timed out while waiting")));
            }
            e.calls[idx].state = CState::Done;
        }
    }
}

/// One execution following `prefix`; returns the (chosen, n_enabled) sequence.
fn run_once(sc: &PScenario, prefix: &[usize], st: &mut PStats, max_steps: usize) -> Vec<(usize, usize)> {
    let pre = [7u8; 32];
    let hash = sha256::Hash::hash(&pre);
    let hash_hex = hex::encode(AsRef::<[u8]>::as_ref(&hash));
    let mut node = Node::new(100, "0279be667ef9dcbbac55a06295ce870b07029bfcdb2dce28d959f2815b16f81798");
    node.next_group.insert(hash_hex.clone(), sc.groups.iter().copied().max().unwrap_or(1));
    for (k, s) in sc.initial.iter().enumerate() {
        node.parts.push(crate::node::Part {
            id: 100 + k as u64,
            hash_hex: hash_hex.clone(),
            groupid: sc.groups.get(k).copied().unwrap_or(1),
            partid: if sc.zero_partid { k as u64 } else { k as u64 + 1 },
            status: *s,
            preimage: if *s == PartStatus::Complete { Some(pre) } else { None },
            fail_code: if *s == PartStatus::Failed { Some(203) } else { None },
            pay_id: 0,
            amount_msat: 1000,
        });
    }
    let env: SharedP = Arc::new(Mutex::new(PEnv { node, calls: vec![], next_id: 1, preimage: pre, hash_hex: hash_hex.clone(), log: vec![], result: None, returned_state: None, faults_left: sc.faults, fault_used: false }));
    let rt = tokio::runtime::Builder::new_current_thread().enable_time().start_paused(true).build().unwrap();
    let trace: Vec<(usize, usize)> = rt.block_on(async {
        let rpc = Arc::new(Rpc::with_transport(Arc::new(PTransport { env: env.clone() })));
        let provider = PayPaymentProvider::new(rpc, Duration::from_secs(60), false);
        let env2 = env.clone();
        let is_pay = sc.pay;
        tokio::spawn(async move {
            let r = if is_pay {
                provider
                    .pay(PaymentRequest { bolt11: "lnbcrt1dummy".into(), payment_hash: hash, amount_msat: None, max_fee_msat: 5000, max_cltv_delta: 100 })
                    .await
                    .map(Some)
            } else {
                provider.wait_payment(hash).await
            };
            let mut e = env2.lock().unwrap();
            let (p, c, _) = e.node.live_parts(&e.hash_hex.clone());
            let running = e.node.pay_running(&e.hash_hex.clone());
            e.returned_state = Some((p, c, running));
            e.result = Some(r.map_err(|x| x.to_string()));
        });
        let mut trace = vec![];
        let mut idle = 0;
        loop {
            tokio::time::sleep(Duration::from_millis(1)).await;
            let mut e = env.lock().unwrap();
            if e.result.is_some() {
                break;
            }
            let steps = enabled(&e, sc);
            if steps.is_empty() {
                // only time can help (retry sleeps)
                idle += 1;
                if idle > 5 {
                    break;
                }
                drop(e);
                tokio::time::sleep(Duration::from_millis(1500)).await;
                continue;
            }
            idle = 0;
            if trace.len() >= max_steps {
                st.truncated = true;
                break;
            }
            let pos = trace.len();
            let choice = if sc.directed > 0 {
                // RPC effects first, then parts in the directed order
                if let Some(i) = steps.iter().position(|s| matches!(s, PStep::Apply(_))) {
                    i
                } else {
                    let pending: Vec<usize> = e.node.parts.iter().enumerate().filter(|(_, p)| p.status == PartStatus::Pending).map(|(k, _)| k).collect();
                    let last = e.node.parts.len() - 1;
                    let (k, ok) = match sc.directed {
                        1 => (*pending.first().unwrap(), false),
                        2 => (*pending.last().unwrap(), false),
                        _ => {
                            let k = *pending.first().unwrap();
                            (k, k == last)
                        }
                    };
                    steps.iter().position(|s| matches!(s, PStep::Resolve(kk, o, _) if *kk == k && *o == ok)).unwrap_or(0)
                }
            } else if pos < prefix.len() {
                prefix[pos].min(steps.len() - 1)
            } else {
                0
            };
            trace.push((choice, steps.len()));
            let s = steps[choice].clone();
            exec(&mut e, &s);
        }
        trace
    });
    drop(rt);
    // oracles
    let e = env.lock().unwrap();
    st.runs += 1;
    let mut sig = 0u64;
    for l in &e.log {
        if l.starts_with("STEP") {
            sig = crate::prng::mix(sig, crate::prng::hash_str(l));
        }
    }
    st.traces.insert(sig);
    if std::env::var("VMON_PROV_DEBUG").is_ok() && e.log.iter().any(|l| l.contains("Finish(1, 2)")) {
        eprintln!("DBG result={:?} state={:?} log={}", e.result, e.returned_state, e.log.join(" ; "));
    }
    let witness = || format!("scenario {:?}; log: {}", sc, e.log.join(" ; "));
    let cls = |p: usize, c: usize, run: bool| (p.min(3) as u64) | ((c.min(3) as u64) << 2) | ((run as u64) << 4);
    match (&e.result, e.returned_state) {
        (Some(Ok(Some(key))), Some((p, c, run))) => {
            let ok = e.node.parts.iter().any(|x| x.status == PartStatus::Complete && x.preimage.map(|y| y.to_vec()) == Some(key.clone()));
            let (rule, name) = if sc.pay { ("R16a", "R16a") } else { ("R15a", "R15a") };
            st.eval(rule, cls(p, c, run) | (1 << 8));
            if !ok {
                st.violate(format!("{name}|preimage-without-complete-part"), witness);
            }
        }
        (Some(Ok(None)), Some((p, c, run))) => {
            st.eval("R15b", cls(p, c, run));
            if p > 0 || c > 0 {
                st.violate(format!("R15b|none-while|pending={}|complete={}", (p > 0) as u8, (c > 0) as u8), witness);
            }
        }
        (Some(Err(msg)), Some((p, c, run))) => {
            if sc.pay {
                st.eval("R16b", cls(p, c, run));
                if p > 0 || c > 0 || run {
                    st.violate(format!("R16b|err-while|pending={}|complete={}", (p > 0) as u8, (c > 0) as u8), witness);
                }
            } else {
                if !e.fault_used {
                    st.eval("R15c", cls(p, c, run));
                    st.violate("R15c|err-without-fault".into(), || format!("wait_payment returned Err({msg}) with only documented part codes; {}", witness()));
                } else {
                    // an RPC fault was injected: C15 does not say what to return; evidence only
                    st.eval("R15-fault-err", cls(p, c, run));
                }
            }
        }
        _ => {
            // never returned: only legitimate while a part is still pending (the run was cut)
            let (p, _c, run) = {
                let (p, c, _) = e.node.live_parts(&e.hash_hex);
                (p, c, e.node.pay_running(&e.hash_hex))
            };
            st.eval("R15c", 1 << 9);
            if p == 0 && !run && !st.truncated {
                st.violate("R15c|never-returns".into(), witness);
            }
        }
    }
    if !sc.pay && e.result.is_some() {
        st.eval("R15c", 1 << 10);
    }
    if st.samples.len() < 3 && e.log.len() > 6 {
        st.samples.push(e.log.join(" ; ").chars().take(700).collect());
    }
    trace
}

/// Depth-first enumeration of every choice sequence of the scenario (bounded by max_runs).
pub fn explore(sc: &PScenario, st: &mut PStats, max_runs: u64) -> bool {
    let mut prefix: Vec<usize> = vec![];
    let mut n = 0u64;
    st.scenarios += 1;
    loop {
        let trace = run_once(sc, &prefix, st, if sc.directed > 0 { 400 } else { 40 });
        if sc.directed > 0 {
            return true;
        }
        n += 1;
        // backtrack
        let mut t = trace;
        loop {
            match t.pop() {
                None => return true,
                Some((c, k)) => {
                    if c + 1 < k {
                        prefix = t.iter().map(|x| x.0).collect();
                        prefix.push(c + 1);
                        break;
                    }
                }
            }
        }
        if n >= max_runs {
            st.truncated = true;
            return false;
        }
    }
}

pub fn scenarios_c15(thorough: bool) -> Vec<PScenario> {
    use PartStatus::*;
    let mut v = vec![];
    let sts = [Pending, Complete, Failed];
    let max = if thorough { 3 } else { 3 };
    // all multisets of up to `max` parts (order matters little; enumerate sequences up to 3)
    v.push(PScenario { pay: false, initial: vec![], codes: vec![203], max_parts: 0, faults: 0, groups: vec![], zero_partid: false, directed: 0 });
    for a in sts {
        v.push(PScenario { pay: false, initial: vec![a], codes: vec![202, 203, 204, 208, 209], max_parts: 0, faults: 0, groups: vec![], zero_partid: false, directed: 0 });
        for b in sts {
            v.push(PScenario { pay: false, initial: vec![a, b], codes: vec![203, 204], max_parts: 0, faults: 0, groups: vec![], zero_partid: false, directed: 0 });
            if max >= 3 {
                for c in sts {
                    v.push(PScenario { pay: false, initial: vec![a, b, c], codes: vec![204], max_parts: 0, faults: 0, groups: vec![], zero_partid: false, directed: 0 });
                }
            }
        }
    }
    // parts of two attempts (different group ids) still around
    for (init, groups) in [
        (vec![Pending, Pending], vec![1u64, 2]),
        (vec![Pending, Failed], vec![1, 2]),
        (vec![Failed, Pending], vec![1, 2]),
        (vec![Pending, Complete], vec![1, 2]),
        (vec![Pending, Pending, Pending], vec![1, 2, 2]),
        (vec![Pending, Pending, Failed], vec![1, 1, 2]),
    ] {
        v.push(PScenario { pay: false, initial: init, codes: vec![203, 204], max_parts: 0, faults: 0, groups, zero_partid: false, directed: 0 });
    }
    v.push(PScenario { pay: false, initial: vec![Pending, Pending], codes: vec![203], max_parts: 0, faults: 1, groups: vec![], zero_partid: false, directed: 0 });
    v.push(PScenario { pay: false, initial: vec![Pending], codes: vec![204], max_parts: 0, faults: 2, groups: vec![], zero_partid: false, directed: 0 });
    // lightningd omits partid 0
    for init in [vec![Pending], vec![Pending, Pending], vec![Complete], vec![Failed, Pending]] {
        v.push(PScenario { pay: false, initial: init, codes: vec![203, 204], max_parts: 0, faults: 0, groups: vec![], zero_partid: true, directed: 0 });
    }
    // many parts, one deterministic order each (beyond what can be enumerated)
    for n in [5usize, 16, 17, 18, 33, 64] {
        for d in [1u8, 2, 3] {
            v.push(PScenario { pay: false, initial: vec![Pending; n], codes: vec![204], max_parts: 0, faults: 0, groups: vec![], zero_partid: false, directed: d });
        }
    }
    if thorough {
        v.push(PScenario { pay: false, initial: vec![Pending, Pending, Pending, Pending], codes: vec![204], max_parts: 0, faults: 0, groups: vec![], zero_partid: false, directed: 0 });
        // F2: one read fault anywhere
        for a in sts {
            for b in sts {
                v.push(PScenario { pay: false, initial: vec![a, b], codes: vec![203], max_parts: 0, faults: 1, groups: vec![], zero_partid: false, directed: 0 });
            }
        }
    }
    v
}

pub fn scenarios_c16(thorough: bool) -> Vec<PScenario> {
    let mut v = vec![PScenario { pay: true, initial: vec![], codes: vec![203], max_parts: 1, faults: 0, groups: vec![], zero_partid: false, directed: 0 }, PScenario { pay: true, initial: vec![], codes: vec![204], max_parts: 2, faults: 0, groups: vec![], zero_partid: false, directed: 0 }];
    // one read fault (transient RPC error) somewhere after pay: failure may still only be reported
    // when nothing is pending or complete
    v.push(PScenario { pay: true, initial: vec![], codes: vec![203], max_parts: 2, faults: 1, groups: vec![], zero_partid: false, directed: 0 });
    if thorough {
        v.push(PScenario { pay: true, initial: vec![], codes: vec![203, 209], max_parts: 2, faults: 0, groups: vec![], zero_partid: false, directed: 0 });
        v.push(PScenario { pay: true, initial: vec![], codes: vec![203], max_parts: 3, faults: 0, groups: vec![], zero_partid: false, directed: 0 });
    }
    v
}
