//! The simulated world of one run of the manager-level simulation: node ground truth,
//! outstanding RPC calls, incoming HTLCs, per-hash set tracking, event log, violations.

use crate::gen::{HtlcSpec, RefLabel};
use crate::messages::TrampolineInfo;
use crate::node::{Node, RpcErr, RpcResult};
use crate::prng::mix;
use crate::rpc::{Submitted, Transport};
use serde_json::Value;
use std::collections::BTreeMap;
use std::sync::{Arc, Mutex};
use std::time::Duration;
use tokio::sync::oneshot;

#[derive(Clone, Debug)]
pub struct SimCfg {
    pub base: u32,
    pub ppm: u32,
    pub policy_delta: u16,
    pub cltv_delta: u16,
    pub mpp_timeout: Duration,
    pub payment_timeout: Duration,
    pub xpay: bool,
    pub allow_self: bool,
    pub start_height: u32,
    /// 0 = none, 1 = datastore write faults, 2 = + read/query faults
    pub fault_tier: u8,
    pub max_faults: u32,
    pub max_crashes: u32,
    pub max_steps: u32,
    /// probes for C09 after the history has quiesced
    pub probe: bool,
    /// fabricate the age of a stored Pending record (seconds), C11 R11d
    pub age_pending_secs: Option<u64>,
    /// C09: age stored Pending records by this much before every probe
    pub probe_age_secs: Option<u64>,
    /// C09: probe in the same process lifetime instead of restarting first
    pub probe_same_process: bool,
}

#[derive(Clone, Copy, Debug, PartialEq, Eq, Hash)]
pub enum Recipient {
    Settle,
    FailAll,
    Mixed,
}

pub struct HashInfo {
    pub idx: usize,
    pub preimage: [u8; 32],
    pub hash: [u8; 32],
    pub hex: String,
    /// a TrampolineInfo for this hash, used only to ask the plugin's own store what the
    /// durable record says (rec)
    pub tramp: TrampolineInfo,
    pub recipient: Recipient,
}

#[derive(Clone, Debug, PartialEq)]
pub enum Rec {
    Free,
    Pending,
    Succeeded(Vec<u8>),
    ReadErr(String),
}

impl Rec {
    pub fn tag(&self) -> u64 {
        match self {
            Rec::Free => 0,
            Rec::Pending => 1,
            Rec::Succeeded(_) => 2,
            Rec::ReadErr(_) => 3,
        }
    }
    pub fn name(&self) -> &'static str {
        match self {
            Rec::Free => "Free",
            Rec::Pending => "Pending",
            Rec::Succeeded(_) => "Succeeded",
            Rec::ReadErr(_) => "ReadErr",
        }
    }
}

#[derive(Clone, Copy, Debug, PartialEq, Eq)]
pub enum HState {
    Planned,
    Delivered,
    Answered,
    Processed,
}

#[derive(Clone, Debug, PartialEq)]
pub enum AnsKind {
    Continue,
    Fail(Vec<u8>),
    Resolve(Vec<u8>),
    Undecodable,
    Malformed,
}

#[derive(Clone, Debug)]
pub struct Answer {
    pub json: Value,
    pub kind: AnsKind,
    pub step: u64,
    pub at_ms: u64,
    pub lifetime: u32,
}

pub struct HtlcRt {
    pub spec: HtlcSpec,
    pub hidx: Option<usize>,
    pub state: HState,
    pub lifetime: u32,
    pub delivered_step: u64,
    pub delivered_ms: u64,
    pub deliveries: u32,
    pub answer: Option<Answer>,
    pub set_id: u32,
    /// counted in the held set when a pay for its hash was issued (R03d)
    pub funding_pay: Option<u64>,
    pub is_probe: bool,
    pub calls_before: u64,
    pub tracked_before: Option<usize>,
}

#[derive(Clone, Debug, PartialEq)]
pub enum CallState {
    Issued,
    Blocked,
    Ready(RpcResult),
    Done,
}

pub struct Call {
    pub id: u64,
    pub method: String,
    pub params: Value,
    pub state: CallState,
    pub tx: Option<oneshot::Sender<RpcResult>>,
    pub hidx: Option<usize>,
    pub lifetime: u32,
    pub issued_step: u64,
    pub stalled: bool,
    pub faulted: bool,
    pub wait_part: Option<usize>,
    pub pay_id: Option<u64>,
    pub reply_log: Option<String>,
}

#[derive(Clone, Debug, Default)]
pub struct SetRt {
    pub set_id: u32,
    pub active: bool,
    pub first: Option<usize>,
    pub rec_at_first: Option<Rec>,
    pub live_at_first: bool,
    pub rejected_by: Option<(usize, &'static str)>,
    pub first_rejecting: Option<&'static str>,
    pub paid: bool,
    pub ever_funded: bool,
    pub faulted: bool,
    pub read_done_ms: Option<u64>,
    pub last_reply_ms: Option<u64>,
    pub early_snap: Option<(u32, u32)>,
    pub write_snap: Option<(u32, u32)>,
    pub aged_secs: Option<u64>,
    pub wall_start: Option<std::time::Instant>,
}

#[derive(Clone, Debug)]
pub struct Violation {
    pub rule: &'static str,
    pub property: &'static str,
    pub signature: String,
    pub detail: String,
    pub step: u64,
}

#[derive(Clone, Debug)]
pub struct Ev {
    pub step: u64,
    pub t_ms: u64,
    pub text: String,
}

/// Rules whose verdict does not depend on the order in which the plugin handled two events
/// delivered at the same instant (they read node ground truth, or the answer alone).
pub const FUSED_RULES: [&str; 18] = ["R01a", "R01b", "R01c", "R02", "R03d", "R05", "R06a", "R06b", "R06c", "R06d", "R08a", "R08b", "R08c", "R10", "R12b", "R13a", "R13d", "R20a"];

#[derive(Default, Clone, Debug)]
pub struct Stats {
    pub evals: BTreeMap<&'static str, u64>,
    pub contexts: BTreeMap<&'static str, std::collections::BTreeSet<u64>>,
}

impl Stats {
    pub fn eval(&mut self, rule: &'static str, ctx: u64) {
        *self.evals.entry(rule).or_insert(0) += 1;
        let s = self.contexts.entry(rule).or_default();
        if s.len() < 4096 {
            s.insert(ctx);
        }
    }
}

pub struct World {
    pub cfg: SimCfg,
    pub node: Node,
    pub hashes: Vec<HashInfo>,
    pub htlcs: Vec<HtlcRt>,
    pub calls: Vec<Call>,
    pub sets: Vec<SetRt>,
    pub next_call_id: u64,
    pub lifetime: u32,
    pub step: u64,
    pub vt_base_ms: u64,
    pub life_start: Option<tokio::time::Instant>,
    pub told_height: u32,
    pub events: Vec<Ev>,
    pub log_events: bool,
    pub violations: Vec<Violation>,
    pub stats: Stats,
    pub panics: Vec<String>,
    pub trace_sig: u64,
    pub window_answers: Vec<usize>,
    pub window_calls: Vec<u64>,
    pub faults_done: u32,
    pub crashes_done: u32,
    pub stall_pct: u64,
    /// per cent of trampoline deliveries that are handled at the same instant as a second
    /// event, the delivery task being suspended at one of its first awaits
    pub fuse_pct: u64,
    /// a same-hash pair was handled concurrently: the order-dependent part of the reference
    /// model is ambiguous from here on, only order-independent rules are judged
    pub fused: bool,
    /// two trampoline HTLCs delivered at the same instant in the current window
    pub window_pair: Option<(usize, usize)>,
    pub suppressed: u64,
    /// probe phase: the environment is cooperative (no faults, pay succeeds)
    pub cooperative: bool,
    /// age (seconds) fabricated into stored Pending records at the last restart (R11d)
    pub aged: Option<u64>,
    /// hashes whose stored record still carries the fabricated age
    pub aged_hashes: Vec<(usize, u64)>,
    pub same_process_probes: u32,
    pub part_weight: u64,
    pub fault_weight: u64,
    /// method of the last injected fault (outage runs: the same service stays down for a while)
    pub last_fault_method: Option<String>,
    pub target: Option<String>,
    pub rng: crate::prng::Rng,
    pub rec_cache: Vec<Option<(u64, Rec)>>,
    pub notified: Vec<(String, String)>,
    pub crash_positions: Vec<u64>,
    pub fault_positions: Vec<(u64, &'static str)>,
    pub inconclusive: Vec<String>,
    pub wall_start: std::time::Instant,
}

pub type Shared = Arc<Mutex<World>>;

pub fn lock(w: &Shared) -> std::sync::MutexGuard<'_, World> {
    w.lock().unwrap_or_else(|e| e.into_inner())
}

/// Transport that files calls with the world for the scheduler to answer.
pub struct WorldTransport {
    pub world: Shared,
}

impl Transport for WorldTransport {
    fn submit(&self, method: &str, params: Value) -> Submitted {
        let mut w = lock(&self.world);
        let (tx, rx) = oneshot::channel();
        w.issue_call(method, params, tx);
        Submitted::Later(rx)
    }
}

/// Transport answering reads at once from a frozen copy of the datastore (for `rec`).
pub struct SnapTransport {
    pub node: Node,
}

impl Transport for SnapTransport {
    fn submit(&self, method: &str, params: Value) -> Submitted {
        Submitted::Now(match method {
            "listdatastore" => self.node.listdatastore(&params),
            "listsendpays" => self.node.listsendpays(&params),
            "getinfo" => self.node.getinfo(),
            _ => Err(RpcErr::new(-32601, "snapshot is read-only")),
        })
    }
}

impl World {
    pub fn now_ms(&self) -> u64 {
        match self.life_start {
            Some(s) => self.vt_base_ms + (tokio::time::Instant::now() - s).as_millis() as u64,
            None => self.vt_base_ms,
        }
    }

    pub fn ev(&mut self, text: impl FnOnce() -> String) {
        if self.log_events {
            let e = Ev { step: self.step, t_ms: self.now_ms(), text: text() };
            self.events.push(e);
        }
    }

    pub fn sig(&mut self, a: u64) {
        self.trace_sig = mix(self.trace_sig, a);
    }

    pub fn violate(&mut self, property: &'static str, rule: &'static str, signature: String, detail: String) {
        if self.fused && !FUSED_RULES.contains(&rule) {
            self.suppressed += 1;
            self.ev(|| format!("(not judged after a concurrent same-hash pair: {rule} {signature})"));
            return;
        }
        let step = self.step;
        self.ev(|| format!("VIOLATION {rule} {signature}: {detail}"));
        if self.violations.len() < 32 && !self.violations.iter().any(|v| v.signature == signature) {
            self.violations.push(Violation { rule, property, signature, detail, step });
        }
    }

    /// a violation of the property under check has been recorded (any violation if no target)
    pub fn target_violated(&self) -> bool {
        match &self.target {
            Some(t) => self.violations.iter().any(|v| v.property == t.as_str()),
            None => !self.violations.is_empty(),
        }
    }

    pub fn hash_idx_of_hex(&self, hex: &str) -> Option<usize> {
        self.hashes.iter().position(|h| h.hex == hex)
    }

    /// What the durable record for hash `i` says, as the plugin's own store reads it.
    pub fn rec(&mut self, i: usize) -> Rec {
        if let Some((m, r)) = &self.rec_cache[i] {
            if *m == self.node.ds_mutations {
                return r.clone();
            }
        }
        use crate::store::{ClnDatastore, Datastore, PaymentState};
        use futures::FutureExt;
        let mut snap = Node::default();
        let prefix = &self.hashes[i].hex;
        for (k, v) in self.node.ds.iter() {
            if k.iter().any(|s| s == prefix) {
                snap.ds.insert(k.clone(), v.clone());
            }
        }
        let rpc = Arc::new(crate::rpc::Rpc::with_transport(Arc::new(SnapTransport { node: snap })));
        let store = ClnDatastore::new(rpc);
        let r = match store.fetch_payment_info(&self.hashes[i].tramp).now_or_never() {
            Some(Ok(PaymentState::Free)) => Rec::Free,
            Some(Ok(PaymentState::Pending { .. })) => Rec::Pending,
            Some(Ok(PaymentState::Succeeded { preimage })) => Rec::Succeeded(preimage),
            Some(Err(e)) => Rec::ReadErr(format!("{e}")),
            None => Rec::ReadErr("store read did not complete synchronously".into()),
        };
        self.rec_cache[i] = Some((self.node.ds_mutations, r.clone()));
        r
    }

    /// delivered-and-unanswered HTLCs whose own payment hash is hash `i`
    pub fn held(&self, i: usize) -> Vec<usize> {
        let h = &self.hashes[i].hash;
        self.htlcs
            .iter()
            .enumerate()
            .filter(|(_, x)| x.state == HState::Delivered && x.lifetime == self.lifetime && &x.spec.htlc_hash == h)
            .filter(|(_, x)| matches!(x.spec.label, RefLabel::Tramp { .. }))
            .map(|(k, _)| k)
            .collect()
    }

    pub fn fee_ok(&self, total: u128, amount: u64) -> bool {
        let fee = self.cfg.base as u128 + (amount as u128 * self.cfg.ppm as u128) / 1_000_000u128;
        total >= amount as u128 + fee
    }

    pub fn attribute(&self, method: &str, params: &Value) -> Option<usize> {
        match method {
            "datastore" | "listdatastore" | "deldatastore" => {
                let k = params.get("key")?.as_array()?;
                for s in k {
                    if let Some(s) = s.as_str() {
                        if let Some(i) = self.hash_idx_of_hex(s) {
                            return Some(i);
                        }
                    }
                }
                None
            }
            "listsendpays" | "waitsendpay" => {
                let h = params.get("payment_hash")?.as_str()?;
                self.hash_idx_of_hex(h)
            }
            "pay" => {
                let b = params.get("bolt11")?.as_str()?;
                let inv: lightning_invoice::Bolt11Invoice = b.parse().ok()?;
                let hx = hex::encode(AsRef::<[u8]>::as_ref(inv.payment_hash()));
                self.hash_idx_of_hex(&hx)
            }
            _ => None,
        }
    }

    pub fn issue_call(&mut self, method: &str, params: Value, tx: oneshot::Sender<RpcResult>) {
        let id = self.next_call_id;
        self.next_call_id += 1;
        let hidx = self.attribute(method, &params);
        let stalled = self.stall_pct > 0 && method != "pay" && self.rng.below(100) < self.stall_pct;
        self.ev(|| format!("CALL #{id} {method} h={hidx:?} {}", short(&params)));
        self.window_calls.push(id);
        let call = Call {
            id,
            method: method.to_string(),
            params,
            state: CallState::Issued,
            tx: Some(tx),
            hidx,
            lifetime: self.lifetime,
            issued_step: self.step,
            stalled,
            faulted: false,
            wait_part: None,
            pay_id: None,
            reply_log: None,
        };
        self.calls.push(call);
        let idx = self.calls.len() - 1;
        crate::monitors::on_call_issued(self, idx);
    }
}

pub fn short(v: &Value) -> String {
    let s = v.to_string();
    if s.len() > 300 {
        format!("{}…({}B)", &s[..300.min(s.len())].chars().take(280).collect::<String>(), s.len())
    } else {
        s
    }
}

impl World {
    /// Fabricate an older stored history: rewrite `attempt_time_seconds` inside every stored
    /// record that has one to (now - age). This is the only place where the harness depends on
    /// the plugin's storage format; if the field is not found nothing is changed and the aged
    /// runs count as inconclusive for R11d.
    pub fn age_pending_records(&mut self, age: u64) -> bool {
        let now = std::time::SystemTime::now().duration_since(std::time::UNIX_EPOCH).map(|d| d.as_secs()).unwrap_or(0);
        let key = "\"attempt_time_seconds\":";
        let mut changed = false;
        for (_, e) in self.node.ds.iter_mut() {
            let s = match std::str::from_utf8(&e.data) {
                Ok(s) => s.to_string(),
                Err(_) => continue,
            };
            if let Some(p) = s.find(key) {
                let after = &s[p + key.len()..];
                let end = after.find(|c: char| !c.is_ascii_digit()).unwrap_or(after.len());
                if end > 0 {
                    let new = format!("{}{}{}{}", &s[..p], key, now.saturating_sub(age), &after[end..]);
                    e.data = new.into_bytes();
                    changed = true;
                }
            }
        }
        if changed {
            self.node.ds_mutations += 1;
        }
        changed
    }
}
