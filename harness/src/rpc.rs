//! The one substitution (DESIGN 2.3): `crate::rpc::Rpc` is an in-memory transport to the
//! simulated node. The trait `ClnRpc` and the error type are the real ones from
//! /repo/src/rpc.rs, included below as `rpc_real`.

#[path = "../repo_src/rpc.rs"]
#[allow(dead_code)]
pub mod rpc_real;

pub use rpc_real::{ClnRpc, RpcError};

use crate::node::RpcResult;
use async_trait::async_trait;
use serde::{de::DeserializeOwned, Serialize};
use serde_json::Value;
use std::sync::Arc;
use tokio::sync::oneshot;

/// What the transport needs from a simulated node.
pub trait Transport: Send + Sync {
    /// Hand a request to the node. Either an immediate answer (direct/snapshot mode) or a
    /// receiver the scheduler will complete.
    fn submit(&self, method: &str, params: Value) -> Submitted;
}

pub enum Submitted {
    Now(RpcResult),
    Later(oneshot::Receiver<RpcResult>),
}

#[derive(Clone)]
pub struct Rpc {
    pub transport: Arc<dyn Transport>,
}

impl Rpc {
    pub fn with_transport(t: Arc<dyn Transport>) -> Self {
        Rpc { transport: t }
    }

    async fn call<Q: Serialize, R: DeserializeOwned>(&self, method: &str, req: &Q) -> Result<R, RpcError> {
        let params = serde_json::to_value(req).map_err(|e| {
            RpcError::Rpc(cln_rpc::RpcError {
                code: None,
                message: format!("serialize: {e}"),
                data: None,
            })
        })?;
        let res = match self.transport.submit(method, params) {
            Submitted::Now(r) => r,
            Submitted::Later(rx) => match rx.await {
                Ok(r) => r,
                // The node went away without answering: behave like a connection that never
                // answers (only happens when the whole lifetime is being torn down).
                Err(_) => std::future::pending().await,
            },
        };
        match res {
            Ok(v) => serde_json::from_value::<R>(v).map_err(|e| {
                RpcError::Rpc(cln_rpc::RpcError {
                    code: None,
                    message: format!("Failed to parse response {:?}", e),
                    data: None,
                })
            }),
            Err(e) => Err(RpcError::Rpc(cln_rpc::RpcError {
                code: e.code,
                message: e.message,
                data: None,
            })),
        }
    }
}

// `impl ClnRpc for Rpc` is generated from the trait declaration in the repo (see ./check)
#[allow(unused_imports)]
use cln_rpc::model::requests::*;
#[allow(unused_imports)]
use cln_rpc::model::responses::*;
include!("rpc_impl.rs");
