//! vmon: runtime monitors for breez/trampoline. The plugin's real modules are compiled from
//! /repo/src by #[path] inclusion (via the `repo_src` symlink next to `src`), so every
//! `crate::...` path inside them resolves here exactly as in the plugin binary.
#![allow(dead_code)]
#![allow(clippy::all)]

pub use anyhow::Error;

#[path = "../repo_src/block_watcher.rs"]
pub mod block_watcher;
#[path = "../repo_src/cln_plugin/mod.rs"]
pub mod cln_plugin;
#[path = "../repo_src/email.rs"]
pub mod email;
#[path = "../repo_src/htlc_manager.rs"]
pub mod htlc_manager;
#[path = "../repo_src/messages.rs"]
pub mod messages;
#[path = "../repo_src/payment_provider.rs"]
pub mod payment_provider;
#[path = "../repo_src/store.rs"]
pub mod store;
#[path = "../repo_src/tlv.rs"]
pub mod tlv;

pub mod rpc;

mod enumerate;
mod evidence;
mod gen;
mod node;
mod prng;
mod monitors;
mod plan;
mod probe;
mod prov;
mod sim;
mod world;
mod blocksim;
mod c10;
mod c14;
mod checks;
mod driversim;
mod e2e;
mod e2e_checks;
mod checks_pure;
mod pure;
mod cli;

fn main() {
    // anyhow captures a backtrace per error when RUST_BACKTRACE is set: ~300us and a global
    // lock per error. The monitors take their own backtraces explicitly (force_capture).
    std::env::set_var("RUST_LIB_BACKTRACE", "0");
    std::process::exit(cli::main());
}
