//! PURE engine (DESIGN 2.5): direct calls of tlv.rs / messages.rs with reference oracles.
//! Shared between the `vmon` crate (native debug and release) and `vpure` (Miri).
//! Only depends on crate::tlv, crate::messages and std.

use crate::messages::{HtlcFailReason, TrampolineRoutingPolicy};
use crate::tlv::{FromBytes, ProtoBuf, SerializedTlvStream, TlvEntry, ToBytes};
use std::collections::BTreeMap;

// ------------------------------------------------------------------ tiny PRNG (no deps)
pub struct P(pub u64);
impl P {
    pub fn next(&mut self) -> u64 {
        self.0 = self.0.wrapping_add(0x9E3779B97F4A7C15);
        let mut z = self.0;
        z = (z ^ (z >> 30)).wrapping_mul(0xBF58476D1CE4E5B9);
        z = (z ^ (z >> 27)).wrapping_mul(0x94D049BB133111EB);
        z ^ (z >> 31)
    }
    pub fn below(&mut self, n: u64) -> u64 {
        if n == 0 {
            0
        } else {
            self.next() % n
        }
    }
    pub fn bytes(&mut self, n: usize) -> Vec<u8> {
        (0..n).map(|_| self.next() as u8).collect()
    }
}

// ------------------------------------------------------------------ reference codec
pub fn put_bigsize(out: &mut Vec<u8>, v: u64) {
    if v < 0xfd {
        out.push(v as u8);
    } else if v <= 0xffff {
        out.push(0xfd);
        out.extend_from_slice(&(v as u16).to_be_bytes());
    } else if v <= 0xffff_ffff {
        out.push(0xfe);
        out.extend_from_slice(&(v as u32).to_be_bytes());
    } else {
        out.push(0xff);
        out.extend_from_slice(&v.to_be_bytes());
    }
}

pub fn enc(recs: &[(u64, Vec<u8>)]) -> Vec<u8> {
    let mut out = vec![];
    for (t, v) in recs {
        put_bigsize(&mut out, *t);
        put_bigsize(&mut out, v.len() as u64);
        out.extend_from_slice(v);
    }
    out
}

fn get_bigsize(b: &[u8], pos: &mut usize) -> Option<(u64, bool)> {
    let first = *b.get(*pos)?;
    *pos += 1;
    let n = match first {
        0xfd => 2,
        0xfe => 4,
        0xff => 8,
        v => return Some((v as u64, true)),
    };
    if b.len() < *pos + n {
        return None;
    }
    let mut v: u64 = 0;
    for i in 0..n {
        v = (v << 8) | b[*pos + i] as u64;
    }
    *pos += n;
    let minimal = match n {
        2 => v >= 0xfd,
        4 => v > 0xffff,
        _ => v > 0xffff_ffff,
    };
    Some((v, minimal))
}

/// Reference decode. Returns (records, canonical) or None if malformed.
/// canonical = minimal BigSize encodings and strictly increasing types (valid BOLT stream).
pub fn dec(b: &[u8]) -> Option<(Vec<(u64, Vec<u8>)>, bool)> {
    let mut pos = 0;
    let mut out: Vec<(u64, Vec<u8>)> = vec![];
    let mut canonical = true;
    while pos < b.len() {
        let (t, m1) = get_bigsize(b, &mut pos)?;
        let (l, m2) = get_bigsize(b, &mut pos)?;
        if l > (b.len() - pos) as u64 {
            return None;
        }
        canonical &= m1 && m2;
        if let Some(last) = out.last() {
            canonical &= t > last.0;
        }
        out.push((t, b[pos..pos + l as usize].to_vec()));
        pos += l as usize;
    }
    Some((out, canonical))
}

// ------------------------------------------------------------------ results
#[derive(Default, Clone)]
pub struct PureStats {
    pub cases: u64,
    pub evals: BTreeMap<&'static str, u64>,
    pub classes: BTreeMap<&'static str, std::collections::BTreeSet<u64>>,
    /// signature -> (count, first witness)
    pub violations: BTreeMap<String, (u64, String)>,
    pub samples: Vec<String>,
}

impl PureStats {
    pub fn eval(&mut self, rule: &'static str, class: u64) {
        *self.evals.entry(rule).or_insert(0) += 1;
        let s = self.classes.entry(rule).or_default();
        if s.len() < 65536 {
            s.insert(class);
        }
    }
    pub fn violate(&mut self, sig: String, witness: impl FnOnce() -> String) {
        let e = self.violations.entry(sig).or_insert_with(|| (0, String::new()));
        if e.0 == 0 {
            e.1 = witness();
        }
        e.0 += 1;
    }
    pub fn merge(&mut self, o: PureStats) {
        self.cases += o.cases;
        for (k, v) in o.evals {
            *self.evals.entry(k).or_insert(0) += v;
        }
        for (k, v) in o.classes {
            self.classes.entry(k).or_default().extend(v);
        }
        for (k, (n, w)) in o.violations {
            let e = self.violations.entry(k).or_insert((0, w.clone()));
            e.0 += n;
        }
        if self.samples.len() < 6 {
            self.samples.extend(o.samples);
        }
    }
    pub fn to_json_string(&self) -> String {
        // hand-rolled JSON so that vpure needs no serde_json code paths under Miri
        let mut s = String::from("{");
        s += &format!("\"cases\":{},", self.cases);
        s += "\"evals\":{";
        s += &self.evals.iter().map(|(k, v)| format!("\"{k}\":{v}")).collect::<Vec<_>>().join(",");
        s += "},\"classes\":{";
        s += &self.classes.iter().map(|(k, v)| format!("\"{k}\":{}", v.len())).collect::<Vec<_>>().join(",");
        s += "},\"violations\":{";
        s += &self
            .violations
            .iter()
            .map(|(k, (n, w))| format!("\"{}\":[{},\"{}\"]", esc(k), n, esc(w)))
            .collect::<Vec<_>>()
            .join(",");
        s += "},\"samples\":[";
        s += &self.samples.iter().map(|x| format!("\"{}\"", esc(x))).collect::<Vec<_>>().join(",");
        s += "]}";
        s
    }
}

fn esc(s: &str) -> String {
    s.chars()
        .map(|c| match c {
            '"' => "\\\"".to_string(),
            '\\' => "\\\\".to_string(),
            '\n' => " ".to_string(),
            c if (c as u32) < 0x20 => " ".to_string(),
            c => c.to_string(),
        })
        .collect()
}

fn hexs(b: &[u8]) -> String {
    b.iter().map(|x| format!("{:02x}", x)).collect()
}

fn guard<T>(f: impl FnOnce() -> T) -> Result<T, ()> {
    std::panic::catch_unwind(std::panic::AssertUnwindSafe(f)).map_err(|_| ())
}

fn recs_of(s: &SerializedTlvStream, reference: &[(u64, Vec<u8>)]) -> bool {
    // compare through the public surface: equality with a stream built from the reference
    let want: SerializedTlvStream = reference.iter().map(|(t, v)| TlvEntry { typ: *t, value: v.clone() }).collect::<Vec<_>>().into();
    *s == want
}

// ------------------------------------------------------------------ C18
/// One arbitrary byte string through every decoder entry point.
pub fn tlv_case(st: &mut PureStats, x: &[u8]) {
    st.cases += 1;
    let class = (x.len().min(15) as u64) | ((x.first().copied().unwrap_or(0) as u64) << 4);
    // R18a: from_bytes total
    let r = guard(|| SerializedTlvStream::from_bytes(x.to_vec()));
    st.eval("R18a", class);
    let reference = dec(x);
    match &r {
        Err(()) => st.violate("R18a|panic|from_bytes".into(), || format!("from_bytes({}) panicked", hexs(x))),
        Ok(res) => {
            if let Some((recs, canonical)) = &reference {
                if *canonical {
                    // R18b: valid BOLT stream: decode then encode reproduces the bytes
                    st.eval("R18b", (recs.len().min(15) as u64) | ((x.len().min(63) as u64) << 4));
                    match res {
                        Err(e) => st.violate("R18b|valid-stream-rejected".into(), || format!("from_bytes({}) = Err({e}) for a valid stream", hexs(x))),
                        Ok(s) => {
                            if !recs_of(s, recs) {
                                st.violate("R18b|records-differ".into(), || format!("from_bytes({}) gave other records than the reference decoder", hexs(x)));
                            }
                            match guard(|| SerializedTlvStream::to_bytes(s.clone())) {
                                Err(()) => st.violate("R18a|panic|to_bytes".into(), || format!("to_bytes after from_bytes({}) panicked", hexs(x))),
                                Ok(back) => {
                                    if back != x {
                                        st.violate("R18b|decode-encode-not-identity".into(), || format!("to_bytes(from_bytes({})) = {}", hexs(x), hexs(&back)));
                                    }
                                }
                            }
                        }
                    }
                    // the length-prefixed entry point agrees
                    let mut pref = vec![];
                    put_bigsize(&mut pref, x.len() as u64);
                    pref.extend_from_slice(x);
                    match guard(|| SerializedTlvStream::try_from(pref.clone())) {
                        Err(()) => st.violate("R18a|panic|try_from".into(), || format!("try_from({}) panicked", hexs(&pref))),
                        Ok(Err(e)) => st.violate("R18b|try_from-rejects-valid".into(), || format!("try_from({}) = Err({e})", hexs(&pref))),
                        Ok(Ok(s2)) => {
                            if !recs_of(&s2, recs) {
                                st.violate("R18b|try_from-differs".into(), || format!("try_from({}) differs from from_bytes", hexs(&pref)));
                            }
                        }
                    }
                }
            }
        }
    }
    // R18a: try_from total on the raw bytes as well (they are what `onion.payload` carries)
    if guard(|| SerializedTlvStream::try_from(x.to_vec())).is_err() {
        st.violate("R18a|panic|try_from".into(), || format!("try_from({}) panicked", hexs(x)));
    }
    // R18d: tu64
    if x.len() <= 16 {
        let mut b: bytes::Bytes = x.to_vec().into();
        let r = guard(move || b.get_tu64());
        st.eval("R18d", x.len() as u64);
        match r {
            Err(()) => st.violate("R18a|panic|get_tu64".into(), || format!("get_tu64({}) panicked", hexs(x))),
            Ok(res) => {
                if x.len() <= 8 {
                    let mut v = 0u64;
                    for y in x {
                        v = (v << 8) | *y as u64;
                    }
                    if res.as_ref().ok() != Some(&v) {
                        st.violate("R18d|wrong-value".into(), || format!("get_tu64({}) = {:?}, expected {v}", hexs(x), res.as_ref().ok()));
                    }
                } else if res.is_ok() {
                    st.violate("R18d|overlong-accepted".into(), || format!("get_tu64({}) accepted {} bytes", hexs(x), x.len()));
                }
            }
        }
    }
}

/// Encode-then-decode for generated records.
pub fn tlv_roundtrip(st: &mut PureStats, recs: &[(u64, Vec<u8>)]) {
    st.cases += 1;
    let s: SerializedTlvStream = recs.iter().map(|(t, v)| TlvEntry { typ: *t, value: v.clone() }).collect::<Vec<_>>().into();
    let class = (recs.len().min(15) as u64) | ((recs.iter().map(|r| bigsize_width(r.0)).max().unwrap_or(0) as u64) << 4) | ((recs.iter().map(|r| bigsize_width(r.1.len() as u64)).max().unwrap_or(0) as u64) << 8);
    st.eval("R18c", class);
    let bytes = match guard(|| SerializedTlvStream::to_bytes(s.clone())) {
        Ok(b) => b,
        Err(()) => {
            st.violate("R18a|panic|to_bytes".into(), || format!("to_bytes({recs:?}) panicked"));
            return;
        }
    };
    if bytes != enc(recs) {
        st.violate("R18c|encoding-differs-from-reference".into(), || format!("to_bytes = {} reference = {}", hexs(&bytes), hexs(&enc(recs))));
    }
    match guard(|| SerializedTlvStream::from_bytes(bytes.clone())) {
        Err(()) => st.violate("R18a|panic|from_bytes".into(), || format!("from_bytes({}) panicked", hexs(&bytes))),
        Ok(Err(e)) => st.violate("R18c|encode-decode-rejected".into(), || format!("from_bytes(to_bytes(r)) = Err({e}) for {}", hexs(&bytes))),
        Ok(Ok(back)) => {
            if back != s {
                st.violate("R18c|encode-decode-not-identity".into(), || format!("from_bytes(to_bytes(r)) != r for {}", hexs(&bytes)));
            }
        }
    }
}

fn bigsize_width(v: u64) -> u8 {
    if v < 0xfd {
        1
    } else if v <= 0xffff {
        3
    } else if v <= 0xffff_ffff {
        5
    } else {
        9
    }
}

/// Miri mode: keep values short (the interpreter is ~4 orders of magnitude slower).
pub static SMALL: std::sync::atomic::AtomicBool = std::sync::atomic::AtomicBool::new(false);

pub const BIGSIZE_BOUNDARIES: [u64; 14] = [0, 1, 0xfc, 0xfd, 0xfe, 0xff, 0xffff, 0x10000, 0xffff_ffff, 0x1_0000_0000, 33001, 33003, 16, u64::MAX];

/// A canonical stream built from boundary types and lengths.
pub fn gen_canonical(p: &mut P) -> Vec<(u64, Vec<u8>)> {
    let n = p.below(6) as usize;
    let mut types: Vec<u64> = (0..n)
        .map(|_| match p.below(3) {
            0 => BIGSIZE_BOUNDARIES[p.below(14) as usize],
            1 => p.below(300),
            _ => p.next() >> (p.below(64) as u32),
        })
        .collect();
    types.sort();
    types.dedup();
    types
        .into_iter()
        .map(|t| {
            let small = SMALL.load(std::sync::atomic::Ordering::Relaxed);
            let len = match p.below(10) {
                0 if !small => 0xfc,
                1 => 0xfd,
                2 if !small => 0x100,
                3 if !small => 0xffff,
                4 if !small => 0x10000,
                _ => p.below(if small { 12 } else { 40 }),
            } as usize;
            (t, p.bytes(len))
        })
        .collect()
}

/// Structure-aware hostile input: a canonical stream that is truncated, extended, or has a
/// length / type field overwritten.
pub fn gen_hostile(p: &mut P) -> Vec<u8> {
    let mut b = enc(&gen_canonical(p));
    match p.below(6) {
        0 => {
            let cut = p.below(b.len() as u64 + 1) as usize;
            b.truncate(cut);
        }
        1 => {
            let extra = p.below(4) as usize + 1;
            b.extend(p.bytes(extra));
        }
        2 => {
            if !b.is_empty() {
                let i = p.below(b.len() as u64) as usize;
                b[i] = [0xfd, 0xfe, 0xff, 0x00, 0xfc][p.below(5) as usize];
            }
        }
        3 => {
            let n = p.below(12) as usize;
            b = p.bytes(n);
        }
        4 => {
            // huge declared length
            let mut x = vec![];
            put_bigsize(&mut x, p.below(70000));
            put_bigsize(&mut x, [u64::MAX, 1 << 32, 1 << 63, 0xffff_ffff][p.below(4) as usize]);
            x.extend(p.bytes(3));
            b.extend(x);
        }
        _ => {}
    }
    b
}

pub fn tlv_exhaustive(st: &mut PureStats, max_len: usize, shard: u64, shards: u64) {
    // all byte strings of length <= max_len, sharded by first-byte residue
    tlv_case(st, &[]);
    for len in 1..=max_len {
        let total: u64 = 256u64.pow(len as u32);
        let mut i = shard;
        while i < total {
            let mut x = vec![0u8; len];
            let mut v = i;
            for k in (0..len).rev() {
                x[k] = (v & 0xff) as u8;
                v >>= 8;
            }
            tlv_case(st, &x);
            i += shards;
        }
    }
}

pub fn tlv_alphabet(st: &mut PureStats, max_len: usize, shard: u64, shards: u64) {
    const A: [u8; 7] = [0x00, 0x01, 0x02, 0xfc, 0xfd, 0xfe, 0xff];
    for len in 1..=max_len {
        let total: u64 = 7u64.pow(len as u32);
        let mut i = shard;
        while i < total {
            let mut x = vec![0u8; len];
            let mut v = i;
            for k in (0..len).rev() {
                x[k] = A[(v % 7) as usize];
                v /= 7;
            }
            tlv_case(st, &x);
            i += shards;
        }
    }
}

pub fn tlv_structured(st: &mut PureStats, seed: u64, n: u64) {
    let mut p = P(seed);
    for i in 0..n {
        match i % 3 {
            0 => {
                let recs = gen_canonical(&mut p);
                tlv_roundtrip(st, &recs);
                let b = enc(&recs);
                if st.samples.len() < 2 && b.len() > 4 && b.len() < 60 {
                    st.samples.push(format!("canonical stream {}", hexs(&b)));
                }
                tlv_case(st, &b);
                // every truncation of a small canonical stream
                if b.len() <= if SMALL.load(std::sync::atomic::Ordering::Relaxed) { 12 } else { 48 } {
                    for cut in 0..b.len() {
                        tlv_case(st, &b[..cut]);
                    }
                }
            }
            1 => {
                let b = gen_hostile(&mut p);
                if st.samples.len() < 4 && b.len() > 2 && b.len() < 40 {
                    st.samples.push(format!("hostile bytes {}", hexs(&b)));
                }
                tlv_case(st, &b);
            }
            _ => {
                // arbitrary (also non-canonical) record lists round trip
                let n = p.below(5) as usize;
                let recs: Vec<(u64, Vec<u8>)> = (0..n).map(|_| (BIGSIZE_BOUNDARIES[p.below(14) as usize], { let l = p.below(20) as usize; p.bytes(l) })).collect();
                tlv_roundtrip(st, &recs);
            }
        }
    }
    // every BigSize width at its boundary values as type and as length
    for t in BIGSIZE_BOUNDARIES {
        tlv_roundtrip(st, &[(t, vec![1, 2, 3])]);
        let mut x = vec![];
        put_bigsize(&mut x, 1);
        put_bigsize(&mut x, t);
        tlv_case(st, &x);
        for cut in 0..x.len() {
            tlv_case(st, &x[..cut]);
        }
    }
}

// ------------------------------------------------------------------ C12
pub fn fee_ref(total: u64, amount: u64, base: u32, ppm: u32) -> bool {
    let rhs = amount as u128 + base as u128 + (amount as u128 * ppm as u128) / 1_000_000u128;
    if rhs > u64::MAX as u128 {
        return false;
    }
    total as u128 >= rhs
}

pub fn fee_case(st: &mut PureStats, total: u64, amount: u64, base: u32, ppm: u32) {
    st.cases += 1;
    let pol = TrampolineRoutingPolicy { fee_base_msat: base, fee_proportional_millionths: ppm, cltv_expiry_delta: 1008 };
    let want = fee_ref(total, amount, base, ppm);
    let mul_ovf = (amount as u128 * ppm as u128) > u64::MAX as u128;
    let rhs = amount as u128 + base as u128 + (amount as u128 * ppm as u128) / 1_000_000u128;
    let add_ovf = rhs > u64::MAX as u128;
    let class = (want as u64) | ((mul_ovf as u64) << 1) | ((add_ovf as u64) << 2) | (((total as u128 == rhs) as u64) << 3) | (((total as u128 + 1 == rhs) as u64) << 4) | (((base == 0) as u64) << 5) | (((ppm == 0) as u64) << 6) | (((amount > total) as u64) << 7);
    st.eval("R12a", class);
    match guard(|| pol.fee_sufficient(total, amount)) {
        Err(()) => st.violate("R12a|panic".into(), || format!("fee_sufficient(total={total}, amount={amount}) base={base} ppm={ppm} panicked")),
        Ok(got) => {
            if got != want {
                let sig = if got {
                    "R12a|true-but-insufficient"
                } else if mul_ovf {
                    "R12a|mul-overflow-conservative-false"
                } else {
                    "R12a|false-but-sufficient"
                };
                st.violate(sig.into(), || format!("fee_sufficient(total={total}, amount={amount}) base={base} ppm={ppm} = {got}, exact predicate = {want}"));
            }
        }
    }
}

pub fn fee_boundary_values(base: u32, ppm: u32) -> Vec<u64> {
    let mut v: Vec<u64> = vec![0, 1, 2, 999_999, 1_000_000, 1_000_001, (1u64 << 32) - 1, 1u64 << 32, (1u64 << 32) + 1, (1u64 << 63) - 1, 1u64 << 63, (1u64 << 63) + 1, u64::MAX - 1, u64::MAX, u64::MAX / 2, u64::MAX / 2 + 1, 21_000_000_0000_0000_000];
    if ppm > 0 {
        let q = u64::MAX / ppm as u64;
        v.extend([q.wrapping_sub(1), q, q.wrapping_add(1)]);
    }
    // amounts whose amount+fee lands on 2^64-1, 2^64, 2^64+1
    for target in [u64::MAX as u128, u64::MAX as u128 + 1, u64::MAX as u128 + 2] {
        // amount*(1+ppm/1e6)+base = target  =>  amount ~ (target-base)*1e6/(1e6+ppm)
        let a = ((target.saturating_sub(base as u128)) * 1_000_000u128 / (1_000_000u128 + ppm as u128)).min(u64::MAX as u128) as u64;
        for d in [0u64, 1, 2] {
            v.push(a.saturating_sub(d));
            v.push(a.saturating_add(d));
        }
    }
    v.sort();
    v.dedup();
    v
}

pub const POLICY_VALUES: [u32; 7] = [0, 1, 1000, 5000, 999_999, 1_000_000, u32::MAX];

pub fn fee_boundary(st: &mut PureStats) {
    for base in POLICY_VALUES {
        for ppm in POLICY_VALUES {
            let vals = fee_boundary_values(base, ppm);
            for &amount in &vals {
                // totals: the boundary set plus the exact requirement +-1
                let rhs = amount as u128 + base as u128 + (amount as u128 * ppm as u128) / 1_000_000u128;
                let mut totals = vals.clone();
                if rhs <= u64::MAX as u128 + 1 {
                    let r = rhs.min(u64::MAX as u128) as u64;
                    totals.extend([r.saturating_sub(1), r, r.saturating_add(1)]);
                }
                for &total in &totals {
                    fee_case(st, total, amount, base, ppm);
                }
            }
        }
    }
    st.samples.push("boundary cross product: POLICY_VALUES^2 x fee_boundary_values^2 (+ exact requirement +-1)".into());
}

pub fn fee_random(st: &mut PureStats, seed: u64, n: u64) {
    let mut p = P(seed);
    for i in 0..n {
        let base = match p.below(4) {
            0 => 0,
            1 => POLICY_VALUES[p.below(7) as usize],
            _ => p.next() as u32 >> (p.below(32) as u32),
        };
        let ppm = match p.below(4) {
            0 => 0,
            1 => POLICY_VALUES[p.below(7) as usize],
            _ => p.next() as u32 >> (p.below(32) as u32),
        };
        let amount = match p.below(5) {
            0 => p.next() >> (p.below(64) as u32),
            1 => {
                // near the multiplication frontier
                if ppm > 0 {
                    (u64::MAX / ppm as u64).wrapping_add(p.below(5)).wrapping_sub(2)
                } else {
                    p.next()
                }
            }
            2 => {
                // near the addition frontier
                let a = ((u64::MAX as u128 - base as u128) * 1_000_000u128 / (1_000_000u128 + ppm as u128)) as u64;
                a.wrapping_add(p.below(7)).wrapping_sub(3)
            }
            3 => p.below(10_000_000),
            _ => p.next(),
        };
        let rhs = amount as u128 + base as u128 + (amount as u128 * ppm as u128) / 1_000_000u128;
        let total = match p.below(4) {
            0 => p.next() >> (p.below(64) as u32),
            1 | 2 => (rhs.min(u64::MAX as u128) as u64).wrapping_add(p.below(5)).wrapping_sub(2),
            _ => u64::MAX - p.below(3),
        };
        if i < 2 {
            st.samples.push(format!("fee_sufficient(total={total}, amount={amount}) base={base} ppm={ppm}"));
        }
        fee_case(st, total, amount, base, ppm);
    }
}

/// R12b at the encoding level: HtlcFailReason::encode carries exactly the policy.
pub fn fee_encoding(st: &mut PureStats, seed: u64, n: u64) {
    let mut p = P(seed ^ 0x55);
    for _ in 0..n {
        let (base, ppm, delta) = (p.next() as u32, p.next() as u32, p.next() as u16);
        let pol = TrampolineRoutingPolicy { fee_base_msat: base, fee_proportional_millionths: ppm, cltv_expiry_delta: delta };
        let got = HtlcFailReason::TrampolineFeeOrExpiryInsufficient(pol).encode();
        let mut want = vec![0x20, 0x1a];
        want.extend_from_slice(&base.to_be_bytes());
        want.extend_from_slice(&ppm.to_be_bytes());
        want.extend_from_slice(&delta.to_be_bytes());
        st.cases += 1;
        st.eval("R12b-enc", (base == 0) as u64 | (((ppm == 0) as u64) << 1));
        if got != want {
            st.violate("R12b|encoding-differs".into(), || format!("encode(base={base}, ppm={ppm}, delta={delta}) = {}", hexs(&got)));
        }
    }
}
