//! Property checks: campaign runner (16 workers), verdicts, known findings, replay files,
//! evidence.

use crate::cli::Args;
use crate::evidence::Evidence;
use crate::plan::Profile;
use crate::prng::{hash_str, mix};
use crate::sim::{install_panic_hook, run_one, RunOpts, RunResult};
use crate::world::{Stats, Violation};
use serde_json::{json, Value};
use std::collections::{BTreeMap, BTreeSet, HashSet};
use std::sync::atomic::{AtomicBool, AtomicU64, Ordering};
use std::sync::Mutex;
use std::time::Instant;

pub fn out_dir() -> String {
    std::env::var("VMON_OUT").unwrap_or_else(|_| "/verif/out".into())
}
pub fn verif_dir() -> String {
    std::env::var("VMON_VERIF").unwrap_or_else(|_| "/verif".into())
}

pub fn threads() -> usize {
    std::env::var("VMON_THREADS").ok().and_then(|s| s.parse().ok()).unwrap_or_else(|| std::thread::available_parallelism().map(|n| n.get()).unwrap_or(8))
}

#[derive(Default)]
pub struct Agg {
    pub runs: u64,
    pub steps: u64,
    pub sigs: HashSet<u64>,
    pub stats: Stats,
    pub violations: Vec<(u64, String, Violation)>, // (seed, profile, v)
    pub cross: BTreeMap<String, u64>,
    pub inconclusive: BTreeMap<String, u64>,
    pub crash_runs: u64,
    pub fault_runs: u64,
    pub crash_positions: BTreeSet<u64>,
    pub fault_positions: BTreeSet<(u64, &'static str)>,
    pub samples: Vec<Value>,
    pub lifetimes: u64,
    pub rules: Vec<String>,
    pub target_sigs: HashSet<u64>,
}

impl Agg {
    pub fn new(rules: &[&str]) -> Self {
        Agg { rules: rules.iter().map(|s| s.to_string()).collect(), ..Default::default() }
    }
    pub fn absorb(&mut self, r: &RunResult, profile: &str, target: &str) {
        self.runs += 1;
        self.steps += r.steps;
        self.lifetimes += r.lifetimes as u64;
        self.sigs.insert(r.trace_sig);
        if self.rules.iter().any(|x| r.stats.evals.get(x.as_str()).copied().unwrap_or(0) > 0) {
            self.target_sigs.insert(r.trace_sig);
        }
        for (k, v) in r.stats.evals.iter() {
            *self.stats.evals.entry(k).or_insert(0) += v;
        }
        for (k, v) in r.stats.contexts.iter() {
            let s = self.stats.contexts.entry(k).or_default();
            for x in v {
                if s.len() < 100_000 {
                    s.insert(*x);
                }
            }
        }
        for v in &r.violations {
            if v.property == target {
                if self.violations.len() < 200 {
                    self.violations.push((r.seed, profile.to_string(), v.clone()));
                }
            } else {
                *self.cross.entry(format!("{}:{}", v.property, v.signature)).or_insert(0) += 1;
            }
        }
        for i in &r.inconclusive {
            let k: String = i.chars().take(60).collect();
            *self.inconclusive.entry(k).or_insert(0) += 1;
        }
        if !r.crash_positions.is_empty() {
            self.crash_runs += 1;
            for c in &r.crash_positions {
                self.crash_positions.insert(*c);
            }
        }
        if !r.fault_positions.is_empty() {
            self.fault_runs += 1;
            for c in &r.fault_positions {
                self.fault_positions.insert(*c);
            }
        }
    }
}

pub fn profile_name(p: &Profile) -> String {
    format!("{:?}", p)
}

pub fn profile_from(s: &str) -> Profile {
    match s {
        "Hashes" => Profile::Hashes,
        "Amounts" => Profile::Amounts,
        "Expiry" => Profile::Expiry,
        "Crashy" => Profile::Crashy,
        "Probe" => Profile::Probe,
        "Hostile" => Profile::Hostile,
        "Reject" => Profile::Reject,
        "Classify" => Profile::Classify,
        "Timeout" => Profile::Timeout,
        "PassThrough" => Profile::PassThrough,
        _ => Profile::Mixed,
    }
}

/// Run `runs` random simulations spread over `profiles`, seeds derived from (seed, property, i).
pub fn campaign(target: &str, rules: &[&str], seed: u64, thorough: bool, profiles: &[Profile], runs: u64, wall_cap_s: u64) -> Agg {
    install_panic_hook();
    // development knob only: shrink the SIM campaign (never set by the registered commands)
    let runs = std::env::var("VMON_DEV_SIM_RUNS").ok().and_then(|s| s.parse().ok()).unwrap_or(runs);
    let next = AtomicU64::new(0);
    let stop = AtomicBool::new(false);
    let agg = Mutex::new(Agg::new(rules));
    let t0 = Instant::now();
    let base = mix(seed, hash_str(target));
    std::thread::scope(|s| {
        for _ in 0..threads() {
            s.spawn(|| {
                let mut local = Agg::new(rules);
                loop {
                    let i = next.fetch_add(1, Ordering::Relaxed);
                    if i >= runs || stop.load(Ordering::Relaxed) {
                        break;
                    }
                    if t0.elapsed().as_secs() > wall_cap_s {
                        stop.store(true, Ordering::Relaxed);
                        break;
                    }
                    let prof = profiles[(i % profiles.len() as u64) as usize].clone();
                    let run_seed = mix(base, i);
                    let pname = profile_name(&prof);
                    let r = match std::panic::catch_unwind(std::panic::AssertUnwindSafe(|| {
                        run_one(RunOpts { seed: run_seed, profile: prof, thorough, log_events: false, script: None, plan_override: None, target: Some(target.to_string()) })
                    })) {
                        Ok(r) => r,
                        Err(_) => {
                            crate::sim::PANICS.with(|p| p.borrow_mut().clear());
                            *local.inconclusive.entry(format!("harness panic in run seed {run_seed}")).or_insert(0) += 1;
                            continue;
                        }
                    };
                    if local.samples.len() < 2 && (r.lifetimes > 1 || r.steps > 12) {
                        local.samples.push(json!({"seed": run_seed, "profile": pname, "summary": r.summary}));
                    }
                    local.absorb(&r, &pname, target);
                }
                let mut a = agg.lock().unwrap();
                merge(&mut a, local);
            });
        }
    });
    agg.into_inner().unwrap()
}

pub fn merge(a: &mut Agg, b: Agg) {
    a.runs += b.runs;
    a.steps += b.steps;
    a.lifetimes += b.lifetimes;
    a.sigs.extend(b.sigs);
    a.target_sigs.extend(b.target_sigs);
    for (k, v) in b.stats.evals {
        *a.stats.evals.entry(k).or_insert(0) += v;
    }
    for (k, v) in b.stats.contexts {
        a.stats.contexts.entry(k).or_default().extend(v);
    }
    a.violations.extend(b.violations);
    for (k, v) in b.cross {
        *a.cross.entry(k).or_insert(0) += v;
    }
    for (k, v) in b.inconclusive {
        *a.inconclusive.entry(k).or_insert(0) += v;
    }
    a.crash_runs += b.crash_runs;
    a.fault_runs += b.fault_runs;
    a.crash_positions.extend(b.crash_positions);
    a.fault_positions.extend(b.fault_positions);
    if a.samples.len() < 6 {
        a.samples.extend(b.samples);
    }
}

// ------------------------------------------------------------------ known findings

pub struct Known {
    pub known: Vec<(String, String, String)>, // property, signature, what
}

pub fn load_known() -> Known {
    let p = format!("{}/known_findings.json", verif_dir());
    let mut k = Known { known: vec![] };
    if let Ok(s) = std::fs::read_to_string(&p) {
        if let Ok(v) = serde_json::from_str::<Value>(&s) {
            for e in v.get("known").and_then(|x| x.as_array()).cloned().unwrap_or_default() {
                k.known.push((
                    e["property"].as_str().unwrap_or("").to_string(),
                    e["signature"].as_str().unwrap_or("").to_string(),
                    e["what"].as_str().unwrap_or("").to_string(),
                ));
            }
        }
    }
    k
}

impl Known {
    pub fn matches(&self, property: &str, signature: &str) -> Option<&(String, String, String)> {
        self.known.iter().find(|(p, s, _)| p == property && s == signature)
    }
}

// ------------------------------------------------------------------ verdict + evidence

pub struct Outcome {
    pub exit: i32,
}

pub fn write_replay(id: &str, seed: u64, profile: &str, thorough: bool, v: &Violation, extra: Value) -> String {
    let dir = format!("{}/replays", out_dir());
    let _ = std::fs::create_dir_all(&dir);
    let path = format!("{dir}/{id}-{seed}.json");
    // re-run with the event log on
    let engine = extra.get("engine").and_then(|e| e.as_str()).unwrap_or("sim").to_string();
    let events: Vec<String> = if engine == "enum" {
        match std::panic::catch_unwind(std::panic::AssertUnwindSafe(|| crate::enumerate::replay_item(thorough, seed as usize))) {
            Ok(Some(r)) => r.events.iter().map(|e| format!("[{} t={}ms] {}", e.step, e.t_ms, e.text)).collect(),
            _ => vec!["(replay of the enumerated history failed)".into()],
        }
    } else if engine == "sim" {
        let r = std::panic::catch_unwind(std::panic::AssertUnwindSafe(|| {
            run_one(RunOpts { seed, profile: profile_from(profile), thorough, log_events: true, script: None, plan_override: None, target: None })
        }));
        match r {
            Ok(r) => r.events.iter().map(|e| format!("[{} t={}ms] {}", e.step, e.t_ms, e.text)).collect(),
            Err(_) => vec!["(replay run panicked in the harness)".into()],
        }
    } else {
        vec![]
    };
    let doc = json!({
        "property": id,
        "engine": extra.get("engine").cloned().unwrap_or(json!("sim")),
        "seed": seed,
        "profile": profile,
        "thorough": thorough,
        "rule": v.rule,
        "signature": v.signature,
        "detail": v.detail,
        "step": v.step,
        "extra": extra,
        "events": events,
    });
    let _ = std::fs::write(&path, serde_json::to_string_pretty(&doc).unwrap());
    path
}

/// Prints verdict lines, returns exit code. `rules` = verdict-bearing rule ids that must
/// have been evaluated at least once.
pub fn conclude(id: &str, tier: &str, seed: u64, level: &str, agg: &Agg, rules: &[&str], rule_text: &str, assumptions: Vec<String>, t0: Instant, extra_cov: Value, exhaustive: Option<bool>) -> i32 {
    let known = load_known();
    let mut exit = 0;
    let mut seen_known: BTreeSet<String> = BTreeSet::new();
    let mut reported: BTreeSet<String> = BTreeSet::new();
    let mut n_viol = 0u64;
    for (rs, prof, v) in &agg.violations {
        if let Some((p, s, what)) = known.matches(&v.property, &v.signature) {
            if seen_known.insert(s.clone()) {
                println!("KNOWN-FINDING: property={p} {s} -- {what}");
            }
            continue;
        }
        n_viol += 1;
        if reported.insert(v.signature.clone()) && reported.len() <= 5 {
            let engine = if prof.starts_with("enum:") { "enum" } else { "sim" };
            let path = write_replay(id, *rs, prof, tier == "thorough", v, json!({"engine": engine}));
            println!("VIOLATION property={id} replay={path}");
            eprintln!("  rule {} signature {} : {}", v.rule, v.signature, v.detail);
        }
        exit = 1;
    }
    let mut evaluated: BTreeMap<String, u64> = BTreeMap::new();
    let mut contexts: BTreeMap<String, u64> = BTreeMap::new();
    for (k, v) in agg.stats.evals.iter() {
        evaluated.insert(k.to_string(), *v);
    }
    for (k, v) in agg.stats.contexts.iter() {
        contexts.insert(k.to_string(), v.len() as u64);
    }
    let target_evals: u64 = rules.iter().map(|r| agg.stats.evals.get(r).copied().unwrap_or(0)).sum();
    let missing: Vec<&&str> = rules.iter().filter(|r| agg.stats.evals.get(**r).copied().unwrap_or(0) == 0).collect();
    let distinct: u64 = rules.iter().map(|r| agg.stats.contexts.get(r).map(|s| s.len() as u64).unwrap_or(0)).sum();
    // write one sampled run out in full (its boundary event log), so a reader sees what a case is
    let mut samples = agg.samples.clone();
    if let Some(first) = samples.iter().position(|x| x.get("seed").is_some() && x.get("profile").is_some()) {
        let sseed = samples[first]["seed"].as_u64().unwrap_or(0);
        let sprof = samples[first]["profile"].as_str().unwrap_or("Mixed").to_string();
        if let Ok(r) = std::panic::catch_unwind(std::panic::AssertUnwindSafe(|| run_one(RunOpts { seed: sseed, profile: profile_from(&sprof), thorough: tier == "thorough", log_events: true, script: None, plan_override: None, target: Some(id.to_string()) }))) {
            let ev: Vec<String> = r.events.iter().take(70).map(|e| format!("[{} t={}ms] {}", e.step, e.t_ms, e.text.chars().take(180).collect::<String>())).collect();
            samples[first]["event_log_head"] = json!(ev);
        } else {
            crate::sim::PANICS.with(|p| p.borrow_mut().clear());
        }
    }
    let mut cov = json!({
        "evaluations": agg.runs,
        "distinct_nontrivial": agg.target_sigs.len(),
        "distinct_target_contexts": distinct,
        "rule": rule_text,
        "samples": samples,
        "distinct_abstract_traces": agg.sigs.len(),
        "environment_steps": agg.steps,
        "plugin_lifetimes": agg.lifetimes,
        "rule_evaluations": evaluated,
        "distinct_decision_contexts": contexts,
        "target_rule_evaluations": target_evals,
        "runs_with_crash": agg.crash_runs,
        "runs_with_fault": agg.fault_runs,
        "crash_positions_covered": agg.crash_positions.len(),
        "fault_positions_covered": agg.fault_positions.len(),
        "inconclusive": agg.inconclusive,
        "cross_observations": agg.cross,
        "known_findings_matched": seen_known.iter().collect::<Vec<_>>(),
    });
    if let Some(e) = exhaustive {
        cov["exhaustive"] = json!(e);
    }
    if let Value::Object(m) = extra_cov {
        for (k, v) in m {
            cov[k] = v;
        }
    }
    let harness_errs: u64 = agg.inconclusive.iter().filter(|(k, _)| k.starts_with("harness panic")).map(|(_, v)| *v).sum();
    if exit == 0 && (target_evals == 0 || !missing.is_empty()) {
        println!("INCONCLUSIVE property={id} observed nothing for rules {missing:?}");
        exit = 2;
    }
    let capped: u64 = agg.inconclusive.iter().filter(|(k, _)| k.starts_with("step cap reached")).map(|(_, v)| *v).sum();
    if exit == 0 && capped * 200 > agg.runs.max(1) {
        println!("INCONCLUSIVE property={id} {capped} of {} runs hit the step cap before the environment was drained", agg.runs);
        exit = 2;
    }
    if exit == 0 && harness_errs > 0 {
        println!("INCONCLUSIVE property={id} {harness_errs} runs failed inside the harness");
        exit = 2;
    }
    Evidence {
        property_id: id.to_string(),
        tier: tier.to_string(),
        seed,
        level: level.to_string(),
        coverage: cov,
        assumptions,
        wall_s: t0.elapsed().as_secs_f64(),
        violations: n_viol,
    }
    .write(&format!("{}/evidence/{id}.json", verif_dir()));
    eprintln!(
        "[{id}] runs={} traces={} steps={} target_evals={} violations={} known={} inconclusive={:?} wall={:.1}s",
        agg.runs,
        agg.sigs.len(),
        agg.steps,
        target_evals,
        n_viol,
        seen_known.len(),
        agg.inconclusive.values().sum::<u64>(),
        t0.elapsed().as_secs_f64()
    );
    exit
}

pub fn sim_assumptions() -> Vec<String> {
    vec![
        "SimNode models lightningd per DESIGN 2.2 (datastore modes/generations, sendpay part monotonicity, pay ends when it returns, crash re-offers unprocessed HTLCs)".into(),
        "the real /repo/src modules are compiled into the harness; only rpc::Rpc's socket transport is replaced by an in-memory one".into(),
        "virtual time (tokio paused clock); wall clock inside the plugin only affects attempt ids, labels and the restart time_left".into(),
    ]
}

pub fn run_check(id: &str, tier: &str, seed: u64) -> i32 {
    let thorough = tier == "thorough";
    let t0 = Instant::now();
    let n = |q: u64, t: u64| if thorough { t } else { q };
    use Profile::*;
    let sim = |profiles: &[Profile], rules: &[&str], runs: u64, text: &str, level: &str| -> i32 {
        // C01: sessions through the real rpc.rs in which lightningd answers one RPC late, beside the
        // SIM campaign (they mostly wait)
        let late_handle = match (std::env::var("VMON_PLUGIN_BIN"), id == "C01") {
            (Ok(bin), true) => Some(std::thread::spawn(move || crate::e2e_checks::late_reply_sessions(&bin, seed, if thorough { 24 } else { 6 }))),
            _ => None,
        };
        // C03 / C04 / C10: what reaches lightningd's pay through the real rpc.rs
        let params_handle = match (std::env::var("VMON_PLUGIN_BIN"), id == "C03" || id == "C04" || id == "C10") {
            (Ok(bin), true) => Some(std::thread::spawn(move || crate::e2e_checks::pay_params_sessions(&bin, seed, if thorough { 48 } else { 12 }))),
            _ => None,
        };
        let mut agg = campaign(id, rules, seed, thorough, profiles, runs, if thorough { 1500 } else { 100 });
        let mut extra = json!({});
        let mut e2e_exit = 0;
        if let Some(h) = params_handle {
            let r = match h.join() {
                Ok(r) => r,
                Err(_) => crate::e2e::E2eResult { coverage: json!("e2e thread panicked"), violations: BTreeMap::new(), evals: BTreeMap::new(), inconclusive: vec!["pay parameter sessions panicked".into()] },
            };
            extra["e2e_pay_parameter_sessions(real rpc.rs)"] = r.coverage;
            extra["e2e_rule_evaluations"] = json!(r.evals);
            let want: &[&str] = match id {
                "C03" => &["R03"],
                "C04" => &["R04"],
                _ => &["R03c"],
            };
            for (sig, (n, w)) in r.violations.iter() {
                if !want.iter().any(|p| sig.starts_with(p)) {
                    *agg.cross.entry(format!("e2e:{sig}")).or_insert(0) += n;
                    continue;
                }
                let dir = format!("{}/replays", out_dir());
                let _ = std::fs::create_dir_all(&dir);
                let path = format!("{dir}/{id}-e2e-{}.json", sig.replace('|', "_").chars().take(80).collect::<String>());
                let _ = std::fs::write(&path, serde_json::to_string_pretty(&json!({"property": id, "engine": "e2e-pay-params", "signature": sig, "witness": w, "count": n, "seed": seed})).unwrap());
                println!("VIOLATION property={id} replay={path}");
                eprintln!("  {sig}: {}", w.chars().take(600).collect::<String>());
                e2e_exit = 1;
            }
            for i in r.inconclusive {
                *agg.inconclusive.entry(format!("e2e: {i}")).or_insert(0) += 1;
            }
        }
        if let Some(h) = late_handle {
            let r = match h.join() {
                Ok(r) => r,
                Err(_) => crate::e2e::E2eResult { coverage: json!("e2e thread panicked"), violations: BTreeMap::new(), evals: BTreeMap::new(), inconclusive: vec!["late reply sessions panicked".into()] },
            };
            extra["e2e_late_reply_sessions(real rpc.rs)"] = r.coverage;
            extra["e2e_rule_evaluations"] = json!(r.evals);
            for (sig, (n, w)) in r.violations.iter() {
                if !sig.starts_with("R01") {
                    *agg.cross.entry(format!("e2e:{sig}")).or_insert(0) += n;
                    continue;
                }
                let dir = format!("{}/replays", out_dir());
                let _ = std::fs::create_dir_all(&dir);
                let path = format!("{dir}/{id}-e2e-{}.json", sig.replace('|', "_").chars().take(80).collect::<String>());
                let _ = std::fs::write(&path, serde_json::to_string_pretty(&json!({"property": id, "engine": "e2e-late-reply", "signature": sig, "witness": w, "count": n, "seed": seed})).unwrap());
                println!("VIOLATION property={id} replay={path}");
                eprintln!("  {sig}: {}", w.chars().take(600).collect::<String>());
                e2e_exit = 1;
            }
            for i in r.inconclusive {
                *agg.inconclusive.entry(format!("e2e: {i}")).or_insert(0) += 1;
            }
        }
        let rc = conclude(id, tier, seed, level, &agg, rules, text, sim_assumptions(), t0, extra, None);
        if e2e_exit == 1 {
            1
        } else {
            rc
        }
    };
    let rt = "random seeded runs of the real manager/store/provider/block-watcher against SimNode under a hostile scheduler; a case is one run; distinct_nontrivial = number of distinct abstract traces (sequence of (step kind, per-hash durable record, parts-status multiset, held count)) among runs in which a target rule was actually evaluated";
    let fe = |profiles: &[Profile], rules: &[&str], runs: u64, text: &str| -> i32 {
        // the slow-pay / dropped-connection E2E sessions mostly wait: run them beside the SIM campaign
        let transport_handle = match (std::env::var("VMON_PLUGIN_BIN"), id == "C02" || id == "C05") {
            (Ok(bin), true) => {
                let slow: Vec<u64> = if id == "C02" { if thorough { vec![35, 35, 65] } else { vec![33] } } else { vec![] };
                let drops = if thorough { 24 } else { 6 };
                Some(std::thread::spawn(move || crate::e2e_checks::pay_transport_sessions(&bin, seed, &slow, drops)))
            }
            _ => None,
        };
        let mut agg = campaign(id, rules, seed, thorough, profiles, runs, if thorough { 1200 } else { 60 });
        let random_runs = agg.runs;
        let e = crate::enumerate::enumerate(id, rules, thorough, if thorough { 1500 } else { 100 });
        let extra = json!({
            "random_runs": random_runs,
            "enumerated_scenarios": e.scenarios,
            "enumerated_histories": e.histories,
            "enumerated_crash_positions": e.crash_histories,
            "enumerated_write_faults": e.fault_histories,
            "enumerated_crash_x_fault": e.combined_histories,
            "enumeration_bound": "1 hash; 1-2 HTLCs; 1 outgoing part; every pay outcome x resolution order; effect/reply fused or split; one crash at every environment step of the first lifetime and/or one datastore write fault (rejected | lost reply) at every write; followed by restart, drain, up to 3 probes",
        });
        let complete = e.complete;
        merge(&mut agg, e.agg);
        let mut extra = extra;
        let mut e2e_exit = 0;
        if let Some(h) = transport_handle {
            // real rpc.rs: a pay command that runs for a long time (C02), a connection that dies
            // after pay was accepted (C05)
            let r = match h.join() {
                Ok(r) => r,
                Err(_) => crate::e2e::E2eResult { coverage: json!("e2e thread panicked"), violations: BTreeMap::new(), evals: BTreeMap::new(), inconclusive: vec!["pay transport sessions panicked".into()] },
            };
            extra["e2e_pay_transport_sessions"] = r.coverage;
            let want: &[&str] = if id == "C02" { &["R02|"] } else { &["R05|"] };
            for (sig, (n, w)) in r.violations.iter() {
                if !want.iter().any(|p| sig.starts_with(p)) {
                    *agg.cross.entry(format!("e2e:{sig}")).or_insert(0) += n;
                    continue;
                }
                let dir = format!("{}/replays", out_dir());
                let _ = std::fs::create_dir_all(&dir);
                let path = format!("{dir}/{id}-e2e-{}.json", sig.replace('|', "_").chars().take(80).collect::<String>());
                let _ = std::fs::write(&path, serde_json::to_string_pretty(&json!({"property": id, "engine": "e2e-pay-transport", "signature": sig, "witness": w, "count": n, "seed": seed})).unwrap());
                println!("VIOLATION property={id} replay={path}");
                eprintln!("  {sig}: {}", w.chars().take(600).collect::<String>());
                e2e_exit = 1;
            }
            for i in r.inconclusive {
                *agg.inconclusive.entry(format!("e2e: {i}")).or_insert(0) += 1;
            }
        }
        if let (Ok(bin), true) = (std::env::var("VMON_PLUGIN_BIN"), id != "C02") {
            let r = crate::e2e_checks::crash_sessions(&bin, seed, thorough);
            extra["e2e_crash_sessions"] = r.coverage;
            extra["e2e_rule_evaluations"] = json!(r.evals);
            let want: &[&str] = match id {
                "C05" => &["R05|"],
                "C08" => &["R08a|", "R08b|", "R08c|"],
                "C09" => &["R09|"],
                _ => &[],
            };
            let known = load_known();
            for (sig, (n, w)) in r.violations.iter() {
                if !want.iter().any(|p| sig.starts_with(p)) {
                    *agg.cross.entry(format!("e2e:{sig}")).or_insert(0) += n;
                    continue;
                }
                if let Some((p, k, what)) = known.matches(id, sig) {
                    println!("KNOWN-FINDING: property={p} {k} -- {what}");
                    continue;
                }
                let dir = format!("{}/replays", out_dir());
                let _ = std::fs::create_dir_all(&dir);
                let path = format!("{dir}/{id}-e2e-{}.json", sig.replace('|', "_").replace('=', "").chars().take(80).collect::<String>());
                let _ = std::fs::write(&path, serde_json::to_string_pretty(&json!({"property": id, "engine": "e2e-crash", "signature": sig, "witness": w, "count": n, "seed": seed})).unwrap());
                println!("VIOLATION property={id} replay={path}");
                eprintln!("  {sig}: {}", w.chars().take(600).collect::<String>());
                e2e_exit = 1;
            }
            for i in r.inconclusive {
                *agg.inconclusive.entry(format!("e2e: {i}")).or_insert(0) += 1;
            }
            let slow = agg.inconclusive.get("e2e: crash session too slow to judge").copied().unwrap_or(0);
            if slow > 14 {
                agg.inconclusive.insert("harness panic: too many E2E crash sessions were too slow to judge".into(), slow);
            }
        }
        if !complete {
            agg.inconclusive.insert("enumeration stopped by the wall-clock watchdog".into(), 1);
        }
        let rc = conclude(id, tier, seed, "fault_enumeration", &agg, rules, text, sim_assumptions(), t0, extra, Some(complete));
        if e2e_exit == 1 {
            1
        } else {
            rc
        }
    };
    let ft = "enumeration: canonical payments with one crash at every step and/or one write fault at every datastore write (exhaustive for the stated bound), plus random seeded hostile runs with crashes, restarts and faults; a case is one history; distinct_nontrivial = number of distinct abstract traces (sequence of (step kind, durable record, parts-status multiset, held count)) among histories in which a target rule was actually evaluated";
    match id {
        "C12" | "C18" => crate::checks_pure::run_pure_check(id, tier, seed),
        "C15" | "C16" => run_prov_check(id, tier, seed),
        "C20" => run_block_check(id, tier, seed),
        "C17" => run_driver_check(id, tier, seed),
        "C19" => run_c19(id, tier, seed),
        "C14" => run_c14(id, tier, seed),
        "C06" => run_c06(id, tier, seed),
        "C02" => fe(&[Crashy, Mixed, Reject], &["R02"], n(90_000, 2_000_000), ft),
        "C05" => fe(&[Crashy, Mixed], &["R05"], n(90_000, 2_000_000), ft),
        "C08" => fe(&[Crashy, Mixed], &["R08a", "R08c"], n(90_000, 2_000_000), ft),
        "C09" => fe(&[Probe], &["R09"], n(50_000, 1_000_000), ft),
        "C01" => sim(&[Hashes, Mixed, Crashy], &["R01a", "R01b", "R01c"], n(80_000, 1_500_000), rt, "exploration"),
        "C03" => sim(&[Amounts, Mixed, Reject], &["R03a", "R03b", "R03c"], n(80_000, 1_500_000), rt, "exploration"),
        "C04" => sim(&[Expiry, Mixed], &["R04a"], n(80_000, 1_500_000), rt, "exploration"),
        "C07" => sim(&[Reject, Mixed], &["R07a", "R07b", "R07c"], n(80_000, 1_500_000), rt, "exploration"),
        "C10" => {
            // the amount that reaches lightningd's pay through the real rpc.rs (amountless invoices)
            let params_handle = std::env::var("VMON_PLUGIN_BIN").ok().map(|bin| std::thread::spawn(move || crate::e2e_checks::pay_params_sessions(&bin, seed, if thorough { 48 } else { 12 })));
            // random campaign + the finite classification product, enumerated
            let rules = ["R10"];
            let mut agg = campaign(id, &rules, seed, thorough, &[Classify, Hashes], n(60_000, 1_200_000), if thorough { 1200 } else { 60 });
            install_panic_hook();
            let cases = crate::c10::cases();
            let next = AtomicU64::new(0);
            let total = Mutex::new(Agg::new(&rules));
            std::thread::scope(|s| {
                for _ in 0..threads() {
                    s.spawn(|| {
                        let mut local = Agg::new(&rules);
                        loop {
                            let i = next.fetch_add(1, Ordering::Relaxed) as usize;
                            if i >= cases.len() {
                                break;
                            }
                            if let Ok(mut r) = std::panic::catch_unwind(std::panic::AssertUnwindSafe(|| crate::c10::run_case(i, &cases[i]))) {
                                r.seed = i as u64;
                                if local.samples.len() < 1 && i % 500 == 3 {
                                    local.samples.push(json!({"case": format!("{:?}", cases[i]), "summary": r.summary}));
                                }
                                local.absorb(&r, "product", id);
                            } else {
                                crate::sim::PANICS.with(|p| p.borrow_mut().clear());
                                *local.inconclusive.entry("harness panic in product case".into()).or_insert(0) += 1;
                            }
                        }
                        merge(&mut total.lock().unwrap(), local);
                    });
                }
            });
            let prod = total.into_inner().unwrap();
            let n_prod = prod.runs;
            // product violations are replayed by case index through the witness text
            let mut prod = prod;
            for (_, prof, v) in prod.violations.iter_mut() {
                *prof = "Classify".into();
                v.detail = format!("[classification product case] {}", v.detail);
            }
            merge(&mut agg, prod);
            let c10_e2e_exit = AtomicU64::new(0);
            let rc10 = conclude(id, tier, seed, "exploration", &agg, &rules, "the finite product invoice{amount present/absent} x signer{payee, explicit payee, explicit payee signed by another key, signature recovering to another key, explicit payee with the other recovery id} x hints{none, other, self last, self not last, other then self last} x hash{equal, different} x amount field{absent, equal, +1, -1, padded equal, empty, 9 bytes, single zero byte} x allow_self x forward_msat{present, absent} x amount record {after, before} the invoice record (6000 cases, each one funded single-HTLC run, pay failing in half of them so that the reported payee is observed), plus random seeded runs of the Classify/Hashes profiles; distinct_nontrivial = distinct abstract traces among runs in which R10 was evaluated", sim_assumptions(), t0, {
                let mut extra = json!({"classification_product_cases": n_prod});
                if let Some(h) = params_handle {
                    if let Ok(r) = h.join() {
                        extra["e2e_pay_parameter_sessions(real rpc.rs)"] = r.coverage;
                        for (sig, (n, w)) in r.violations.iter() {
                            if sig.starts_with("R03c|e2e-amount") {
                                let dir = format!("{}/replays", out_dir());
                                let _ = std::fs::create_dir_all(&dir);
                                let path = format!("{dir}/{id}-e2e-{}.json", sig.replace('|', "_").chars().take(80).collect::<String>());
                                let _ = std::fs::write(&path, serde_json::to_string_pretty(&json!({"property": id, "engine": "e2e-pay-params", "signature": sig, "witness": w, "count": n, "seed": seed})).unwrap());
                                println!("VIOLATION property={id} replay={path}");
                                eprintln!("  {sig}: {}", w.chars().take(600).collect::<String>());
                                c10_e2e_exit.store(1, Ordering::Relaxed);
                            }
                        }
                    }
                }
                extra
            }, None);
            if c10_e2e_exit.load(Ordering::Relaxed) == 1 {
                1
            } else {
                rc10
            }
        }
        "C11" => sim(&[Timeout, Mixed], &["R11a", "R11b", "R11c"], n(80_000, 1_500_000), rt, "exploration"),
        "C13" => sim(&[PassThrough, Mixed], &["R13a", "R13b"], n(80_000, 1_500_000), rt, "exploration"),
        _ => {
            println!("INCONCLUSIVE property={id} unknown check");
            2
        }
    }
}

pub fn replay(path: &str) -> i32 {
    let s = match std::fs::read_to_string(path) {
        Ok(s) => s,
        Err(e) => {
            eprintln!("cannot read {path}: {e}");
            return 2;
        }
    };
    let v: Value = serde_json::from_str(&s).unwrap_or(Value::Null);
    let seed = v["seed"].as_u64().unwrap_or(0);
    let profile = v["profile"].as_str().unwrap_or("Mixed").to_string();
    let thorough = v["thorough"].as_bool().unwrap_or(false);
    install_panic_hook();
    let r = if v["engine"].as_str() == Some("enum") {
        match crate::enumerate::replay_item(thorough, seed as usize) {
            Some(r) => r,
            None => return 2,
        }
    } else {
        run_one(RunOpts { seed, profile: profile_from(&profile), thorough, log_events: true, script: None, plan_override: None, target: None })
    };
    for e in &r.events {
        println!("[{} t={}ms] {}", e.step, e.t_ms, e.text);
    }
    let want = v["signature"].as_str().unwrap_or("");
    let again = r.violations.iter().any(|x| x.signature == want);
    println!("replay: {} violation(s); original signature {} {}", r.violations.len(), want, if again { "REPRODUCED" } else { "not reproduced" });
    if again {
        1
    } else {
        0
    }
}

pub fn dev_run(args: &Args) -> i32 {
    install_panic_hook();
    let profile = profile_from(&args.get("--profile").unwrap_or("Mixed".into()));
    let seed: u64 = args.get("--seed").and_then(|s| s.parse().ok()).unwrap_or(1);
    let n: u64 = args.get("--n").and_then(|s| s.parse().ok()).unwrap_or(1);
    let thorough = args.has("--thorough");
    if n == 1 {
        let r = run_one(RunOpts { seed, profile, thorough, log_events: true, script: None, plan_override: None, target: None });
        for e in &r.events {
            println!("[{} t={}ms] {}", e.step, e.t_ms, e.text);
        }
        println!("{}", r.summary);
        for v in &r.violations {
            println!("VIOL {} {} {}", v.property, v.signature, v.detail);
        }
        for p in &r.panics {
            println!("PANIC {p}");
        }
        println!("inconclusive: {:?}", r.inconclusive);
        return 0;
    }
    let t0 = Instant::now();
    let agg = campaign("DEV", &[], seed, thorough, &[profile], n, 3600);
    let mut by_sig: BTreeMap<String, (u64, u64, String)> = BTreeMap::new();
    for (s, _p, v) in &agg.violations {
        let e = by_sig.entry(format!("{}:{}", v.property, v.signature)).or_insert((0, *s, v.detail.clone()));
        e.0 += 1;
    }
    for (k, v) in &agg.cross {
        println!("cross {k} x{v}");
    }
    for (k, (n, s, d)) in &by_sig {
        println!("viol {k} x{n} seed={s} {d}");
    }
    println!("runs={} traces={} steps={} wall={:.1}s inconclusive={:?}", agg.runs, agg.sigs.len(), agg.steps, t0.elapsed().as_secs_f64(), agg.inconclusive);
    for (k, v) in agg.stats.evals.iter() {
        println!("  {k}: evals={v} ctx={}", agg.stats.contexts.get(k).map(|s| s.len()).unwrap_or(0));
    }
    0
}

pub fn run_prov_check(id: &str, tier: &str, seed: u64) -> i32 {
    use crate::prov::*;
    let t0 = Instant::now();
    let thorough = tier == "thorough";
    crate::checks_pure::silent_hook();
    let scns = if id == "C15" { scenarios_c15(thorough) } else { scenarios_c16(thorough) };
    let cap: u64 = if thorough { 3_000_000 } else { 150_000 };
    let next = AtomicU64::new(0);
    let total = Mutex::new(PStats::default());
    let incomplete = Mutex::new(Vec::<String>::new());
    std::thread::scope(|s| {
        for _ in 0..threads() {
            s.spawn(|| loop {
                let i = next.fetch_add(1, Ordering::Relaxed) as usize;
                if i >= scns.len() {
                    break;
                }
                let mut st = PStats::default();
                let done = explore(&scns[i], &mut st, cap);
                if !done {
                    incomplete.lock().unwrap().push(format!("{:?}", scns[i]));
                }
                total.lock().unwrap().merge(st);
            });
        }
    });
    let mut st = total.into_inner().unwrap();
    let incomplete = incomplete.into_inner().unwrap();
    // C16 through the real rpc.rs: the connection dies after lightningd accepted the pay command
    // (the wrapper sees a transport error while a part is pending; the part then completes)
    let mut e2e_cov = json!(null);
    if let (Ok(bin), true) = (std::env::var("VMON_PLUGIN_BIN"), id == "C16") {
        let r = crate::e2e_checks::pay_transport_sessions(&bin, seed, &[], if thorough { 24 } else { 6 });
        e2e_cov = r.coverage;
        for (sig, (n, w)) in r.violations {
            if sig.starts_with("R02|e2e-not-settled-after-transport-error") {
                st.violations.insert("R16b|e2e-failure-reported-while-part-pending".to_string(), (n, format!("{sig}: {w}")));
            }
        }
        *st.evals.entry("R16b-e2e").or_insert(0) += r.evals.get("R05-e2e").copied().unwrap_or(0);
    }
    // the full manager simulation asserts the same at every pay return implicitly through R02/R01b;
    let rules: &[&str] = if id == "C15" { &["R15a", "R15b"] } else { &["R16a", "R16b"] };
    let known = load_known();
    let mut exit = 0;
    let mut n_viol = 0;
    let mut seen_known = vec![];
    for (sig, (n, w)) in &st.violations {
        if let Some((p, s, what)) = known.matches(id, sig) {
            println!("KNOWN-FINDING: property={p} {s} -- {what}");
            seen_known.push(s.clone());
            continue;
        }
        n_viol += n;
        let dir = format!("{}/replays", out_dir());
        let _ = std::fs::create_dir_all(&dir);
        let path = format!("{dir}/{id}-prov-{}.json", sig.replace('|', "_").replace('=', ""));
        let _ = std::fs::write(&path, serde_json::to_string_pretty(&json!({"property": id, "engine": "prov", "signature": sig, "witness": w, "count": n})).unwrap());
        println!("VIOLATION property={id} replay={path}");
        eprintln!("  {sig}: {}", w.chars().take(900).collect::<String>());
        exit = 1;
    }
    let missing: Vec<&&str> = rules.iter().filter(|r| st.evals.get(**r).copied().unwrap_or(0) == 0).collect();
    if exit == 0 && !missing.is_empty() {
        println!("INCONCLUSIVE property={id} observed nothing for {missing:?}");
        exit = 2;
    }
    let distinct: u64 = st.traces.len() as u64;
    Evidence {
        property_id: id.into(),
        tier: tier.into(),
        seed,
        level: "fault_enumeration".into(),
        coverage: json!({
            "evaluations": st.runs,
            "distinct_nontrivial": distinct,
            "rule": "depth-first enumeration of every interleaving of RPC effects (listsendpays snapshots, waitsendpay, pay) with part creations/resolutions (complete or each documented failure code) and pay outcomes, for each initial parts configuration; a case is one complete execution of the real wait_payment/pay; distinct = distinct environment step sequences",
            "samples": st.samples,
            "exhaustive": incomplete.is_empty(),
            "scenarios": st.scenarios,
            "scenarios_cut_by_run_cap": incomplete,
            "rule_evaluations": st.evals,
            "distinct_return_contexts": st.classes.iter().map(|(k, v)| (k.to_string(), v.len())).collect::<BTreeMap<_, _>>(),
            "bound": if id == "C15" { "<= 3 parts (4 pending in thorough) in every initial status mix, codes 202/203/204/209 (208 when the part is unknown), one read fault in thorough" } else { "pay creating <= 2 parts (3 thorough), every outcome {complete,pending,failed,failed+warning,rpc error} at every point, every resolution order afterwards" },
            "known_findings_matched": seen_known,
            "e2e_pay_transport_sessions(real rpc.rs)": e2e_cov,
        }),
        assumptions: vec!["SimNode sendpay semantics (DESIGN 2.2 assumptions 1-4)".into(), "effects and replies of an RPC are fused in this engine: the interleaving that matters is RPC effect order relative to part resolutions".into()],
        wall_s: t0.elapsed().as_secs_f64(),
        violations: n_viol,
    }
    .write(&format!("{}/evidence/{id}.json", verif_dir()));
    eprintln!("[{id}] scenarios={} executions={} distinct={} violations={} cut={} wall={:.1}s", st.scenarios, st.runs, distinct, n_viol, incomplete.len(), t0.elapsed().as_secs_f64());
    exit
}

/// Shared verdict/evidence code for the small engines (signature -> (count, witness)).
pub struct Simple<'a> {
    pub id: &'a str,
    pub tier: &'a str,
    pub seed: u64,
    pub level: &'a str,
    pub engine: &'a str,
    pub evaluations: u64,
    pub distinct: u64,
    pub evals: BTreeMap<String, u64>,
    pub classes: BTreeMap<String, u64>,
    pub violations: BTreeMap<String, (u64, String)>,
    pub samples: Vec<Value>,
    pub rules: Vec<&'a str>,
    pub rule_text: &'a str,
    pub extra: Value,
    pub assumptions: Vec<String>,
    pub inconclusive: Vec<String>,
    pub exhaustive: Option<bool>,
}

pub fn conclude_simple(s: Simple, t0: Instant) -> i32 {
    let known = load_known();
    let mut exit = 0;
    let mut n_viol = 0;
    let mut seen_known = vec![];
    for (sig, (n, w)) in &s.violations {
        if let Some((p, k, what)) = known.matches(s.id, sig) {
            println!("KNOWN-FINDING: property={p} {k} -- {what}");
            seen_known.push(k.clone());
            continue;
        }
        n_viol += n;
        let dir = format!("{}/replays", out_dir());
        let _ = std::fs::create_dir_all(&dir);
        let path = format!("{dir}/{}-{}-{}.json", s.id, s.engine, sig.replace('|', "_").replace('=', "").replace('/', "_").chars().take(80).collect::<String>());
        let _ = std::fs::write(&path, serde_json::to_string_pretty(&json!({"property": s.id, "engine": s.engine, "signature": sig, "witness": w, "count": n, "seed": s.seed, "tier": s.tier})).unwrap());
        println!("VIOLATION property={} replay={path}", s.id);
        eprintln!("  {sig}: {}", w.chars().take(1200).collect::<String>());
        exit = 1;
    }
    let missing: Vec<&&str> = s.rules.iter().filter(|r| s.evals.get(**r).copied().unwrap_or(0) == 0).collect();
    if exit == 0 && (!missing.is_empty() || !s.inconclusive.is_empty()) {
        println!("INCONCLUSIVE property={} missing={missing:?} {:?}", s.id, s.inconclusive);
        exit = 2;
    }
    let mut cov = json!({
        "evaluations": s.evaluations,
        "distinct_nontrivial": s.distinct,
        "rule": s.rule_text,
        "samples": s.samples,
        "rule_evaluations": s.evals,
        "distinct_classes": s.classes,
        "inconclusive": s.inconclusive,
        "known_findings_matched": seen_known,
    });
    if let Some(e) = s.exhaustive {
        cov["exhaustive"] = json!(e);
    }
    if let Value::Object(m) = s.extra {
        for (k, v) in m {
            cov[k] = v;
        }
    }
    Evidence { property_id: s.id.into(), tier: s.tier.into(), seed: s.seed, level: s.level.into(), coverage: cov, assumptions: s.assumptions, wall_s: t0.elapsed().as_secs_f64(), violations: n_viol }.write(&format!("{}/evidence/{}.json", verif_dir(), s.id));
    eprintln!("[{}] evaluations={} distinct={} violations={} wall={:.1}s", s.id, s.evaluations, s.distinct, n_viol, t0.elapsed().as_secs_f64());
    exit
}

pub fn run_block_check(id: &str, tier: &str, seed: u64) -> i32 {
    use crate::blocksim::*;
    let t0 = Instant::now();
    let thorough = tier == "thorough";
    crate::checks_pure::silent_hook();
    let runs: u64 = if thorough { 600_000 } else { 30_000 };
    let next = AtomicU64::new(0);
    let total = Mutex::new(BStats::default());
    let base = mix(seed, hash_str("C20"));
    std::thread::scope(|s| {
        for _ in 0..threads() {
            s.spawn(|| {
                let mut st = BStats::default();
                loop {
                    let i = next.fetch_add(1, Ordering::Relaxed);
                    if i >= runs {
                        break;
                    }
                    run_block(mix(base, i), thorough || i % 2 == 0, &mut st);
                }
                total.lock().unwrap().merge(st);
            });
        }
    });
    let st = total.into_inner().unwrap();
    // passive R20a evaluations inside the manager simulation as well
    let agg = campaign("C20", &["R20a"], seed, thorough, &[Profile::Expiry, Profile::Mixed], if thorough { 200_000 } else { 8_000 }, 600);
    let mut violations = st.violations.clone();
    for (rs, prof, v) in &agg.violations {
        let e = violations.entry(v.signature.clone()).or_insert((0, format!("manager simulation seed {rs} profile {prof}: {}", v.detail)));
        e.0 += 1;
    }
    let mut e2e_cov = Value::Null;
    let mut inconclusive: Vec<String> = vec![];
    let mut e2e_evals: BTreeMap<String, u64> = BTreeMap::new();
    if let Ok(bin) = std::env::var("VMON_PLUGIN_BIN") {
        let r = crate::e2e_checks::c20_e2e(&bin, seed, if thorough { 200 } else { 24 }, if thorough { 16 } else { 2 });
        e2e_cov = r.coverage;
        for (k, v) in r.violations {
            violations.insert(k, v);
        }
        e2e_evals = r.evals;
        let slow = r.inconclusive.iter().filter(|x| x.contains("too slow")).count();
        if slow * 4 > 24 {
            inconclusive.push(format!("{slow} E2E height sessions were too slow to judge"));
        }
        inconclusive.extend(r.inconclusive.into_iter().filter(|x| !x.contains("too slow")));
    } else {
        inconclusive.push("plugin binary not provided".into());
    }
    conclude_simple(
        Simple {
            id,
            tier,
            seed,
            level: "exploration",
            engine: "block",
            evaluations: st.runs + agg.runs,
            distinct: st.traces.len() as u64,
            evals: st.evals.iter().map(|(k, v)| (k.to_string(), *v)).chain(e2e_evals.into_iter()).collect(),
            classes: st.classes.iter().map(|(k, v)| (k.to_string(), v.len() as u64)).collect(),
            violations,
            samples: st.samples.iter().map(|s| json!(s)).collect(),
            rules: vec!["R20a", "R20b", "R20a-e2e"],
            rule_text: "random seeded schedules against the real BlockWatcher: getinfo polls answered with fresh or stale snapshots, late, or failing; block_added delivered, lost, delayed, duplicated, reordered, stale or zero; time jumps; then a calm phase (height stable, notifications lost, polls answered at once) of one poll interval; a case is one schedule; distinct = distinct sequences of (step kind, outstanding polls, delayed notifications, behind-or-not)",
            extra: json!({"block_level_runs": st.runs, "environment_events": st.steps, "manager_level_runs_with_passive_R20a": agg.runs, "manager_level_R20a_evaluations": agg.stats.evals.get("R20a").copied().unwrap_or(0), "e2e_height_sessions(real binary: block_added through plugin.rs, polls through rpc.rs)": e2e_cov}),
            assumptions: vec!["getinfo replies carry the height at the instant the node evaluated the call (snapshot), delivery may be late".into(), "the first poll (plugin start-up) succeeds; a failing first poll makes the real main() exit, which is outside C20".into(), "E2E: the height used is inferred from pay.maxdelay = expiry - height - safety delta".into()],
            inconclusive,
            exhaustive: None,
        },
        t0,
    )
}

pub fn run_driver_check(id: &str, tier: &str, seed: u64) -> i32 {
    use crate::driversim::*;
    let t0 = Instant::now();
    let thorough = tier == "thorough";
    crate::checks_pure::silent_hook();
    let runs: u64 = if thorough { 200_000 } else { 6_000 };
    let next = AtomicU64::new(0);
    let total = Mutex::new(DStats::default());
    let base = mix(seed, hash_str("C17"));
    let modes = [ChunkMode::Separators, ChunkMode::Utf8, ChunkMode::Random, ChunkMode::Whole, ChunkMode::Batched, ChunkMode::Separators, ChunkMode::Bytes];
    std::thread::scope(|s| {
        for _ in 0..threads() {
            s.spawn(|| {
                let mut st = DStats::default();
                loop {
                    let i = next.fetch_add(1, Ordering::Relaxed);
                    if i >= runs {
                        break;
                    }
                    let mode = if i % 50 == 49 { ChunkMode::Bytes } else { modes[(i % 6) as usize] };
                    run_driver(mix(base, i), mode, &mut st);
                }
                total.lock().unwrap().merge(st);
            });
        }
    });
    let st = total.into_inner().unwrap();
    let mut inconclusive = vec![];
    // E2E part (real binary, logging on) is added by the e2e engine when the plugin binary is available
    let mut extra = json!({
        "read_chunks": st.chunks,
        "split_offsets_relative_to_separator_covered": st.split_offsets.iter().collect::<Vec<_>>(),
        "splits_inside_multibyte_characters": st.utf8_splits,
        "max_in_flight": st.max_inflight,
        "runs_with_out_of_order_completion": st.out_of_order,
    });
    let mut violations = st.violations.clone();
    let mut evals: BTreeMap<String, u64> = st.evals.iter().map(|(k, v)| (k.to_string(), *v)).collect();
    if let Ok(bin) = std::env::var("VMON_PLUGIN_BIN") {
        match crate::e2e::wire_sessions(&bin, seed, if thorough { 400 } else { 40 }) {
            Ok(r) => {
                extra["e2e"] = r.coverage;
                for (k, v) in r.violations {
                    violations.insert(k, v);
                }
                for (k, v) in r.evals {
                    *evals.entry(k).or_insert(0) += v;
                }
                let slow = r.inconclusive.iter().filter(|x| x.contains("too slow")).count();
                if slow * 4 > if thorough { 400 } else { 40 } {
                    inconclusive.push(format!("{slow} E2E wire sessions were too slow to judge"));
                }
                inconclusive.extend(r.inconclusive.into_iter().filter(|x| !x.contains("too slow")));
            }
            Err(e) => inconclusive.push(format!("e2e: {e}")),
        }
    } else {
        inconclusive.push("plugin binary not provided".into());
    }
    conclude_simple(
        Simple {
            id,
            tier,
            seed,
            level: "exploration",
            engine: "driver",
            evaluations: st.runs,
            distinct: st.traces.len() as u64,
            evals,
            classes: st.classes.iter().map(|(k, v)| (k.to_string(), v.len() as u64)).collect(),
            violations,
            samples: st.samples.iter().map(|s| json!(s)).collect(),
            rules: vec!["R17a", "R17b", "R17c"],
            rule_text: "valid message sequences (getmanifest, init, up to 64 concurrent hook calls and notifications, multi-byte UTF-8, numeric and string ids) cut into read chunks: every offset around each separator, inside multi-byte characters, 1-byte reads, random and batched sizes; handlers released in random order; a case is one stream+chunking+completion order; distinct = distinct (mode, separator split offsets, size) signatures",
            extra,
            assumptions: vec!["lightningd never puts an empty line inside a message".into(), "driver-level runs use with_logging(false); concurrent log notifications are exercised by the E2E sessions against the real binary".into()],
            inconclusive,
            exhaustive: None,
        },
        t0,
    )
}

pub fn run_c19(id: &str, tier: &str, seed: u64) -> i32 {
    let t0 = Instant::now();
    let bin = match std::env::var("VMON_PLUGIN_BIN") {
        Ok(b) => b,
        Err(_) => {
            println!("INCONCLUSIVE property={id} plugin binary not provided");
            return 2;
        }
    };
    let (r, n, d) = crate::e2e_checks::c19_e2e(&bin, seed, tier != "thorough");
    let samples = r.coverage["samples"].as_array().cloned().unwrap_or_default();
    // timing slack exceeded is inconclusive for that probe only; the check stays decided by the rest
    let soft: Vec<String> = r.inconclusive.iter().filter(|x| x.contains("mpp probe") || x.contains("partial set not answered")).cloned().collect();
    let hard: Vec<String> = r.inconclusive.iter().filter(|x| !soft.contains(x)).cloned().collect();
    conclude_simple(
        Simple {
            id,
            tier,
            seed,
            level: "exploration",
            engine: "e2e",
            evaluations: n,
            distinct: d,
            evals: r.evals.clone(),
            classes: r.coverage["outcome_classes"].as_object().map(|m| m.iter().map(|(k, v)| (k.clone(), v.as_u64().unwrap_or(0))).collect()).unwrap_or_default(),
            violations: r.violations,
            samples,
            rules: vec!["R19a", "R19b-policy", "R19b-pay"],
            rule_text: "option assignments for the real binary: every pair of options over {-1,0,1,default,65535,65536,2^32-1,2^32,i64::MAX} (mpp also 2,3), deltas equal/swapped/adjacent, both flags (quick: seeded subsample balanced between accepted and refused); reference: refuse iff out of range or policy delta <= safety delta; accepted assignments are probed: 201a bytes, pay retry_for/maxdelay/maxfee/label, self-route-hint flag, mpp timing; a case is one assignment; distinct = distinct assignments",
            extra: json!({"timing_probes_inconclusive": soft, "assignments": n}),
            assumptions: vec!["lightningd passes integer options as JSON numbers and flags as booleans in init.params.options".into(), "refusal = process exits non-zero without acknowledging init".into(), "wall clock is used one-sidedly: failing before the mpp timeout is a violation, answering late is inconclusive".into()],
            inconclusive: hard,
            exhaustive: Some(tier == "thorough"),
        },
        t0,
    )
}

pub fn run_c06(id: &str, tier: &str, seed: u64) -> i32 {
    let t0 = Instant::now();
    let thorough = tier == "thorough";
    use Profile::*;
    let rules = ["R06a", "R06b", "R06c", "R06d", "R06e"];
    let agg = campaign(id, &rules, seed, thorough, &[Hostile, Mixed, Crashy, Reject], if thorough { 1_500_000 } else { 80_000 }, if thorough { 1200 } else { 60 });
    let mut extra = json!({});
    let mut e2e_viol: Vec<(String, u64, String)> = vec![];
    let mut inconclusive: Vec<String> = vec![];
    match std::env::var("VMON_PLUGIN_BIN") {
        Ok(bin) => {
            let asan = std::env::var("VMON_PLUGIN_ASAN_BIN").ok().filter(|p| std::path::Path::new(p).exists()).map(|p| (p, if thorough { 400 } else { 0 }));
            let r = crate::e2e_checks::c06_e2e(&bin, seed, if thorough { 3000 } else { 120 }, if thorough { 60 } else { 0 }, asan);
            extra["e2e"] = r.coverage;
            extra["e2e_rule_evaluations"] = json!(r.evals);
            for (k, (n, w)) in r.violations {
                e2e_viol.push((k, n, w));
            }
            let soft: Vec<String> = r.inconclusive.iter().filter(|x| x.contains("valgrind") || x.contains("too slow")).cloned().collect();
            extra["e2e_sessions_inconclusive_for_timing"] = json!(soft.len());
            let n_sessions = if thorough { 3060 } else { 120 };
            if soft.len() * 10 > n_sessions {
                inconclusive.push(format!("{} of {n_sessions} E2E sessions were too slow to judge", soft.len()));
            }
            inconclusive.extend(r.inconclusive.into_iter().filter(|x| !x.contains("valgrind") && !x.contains("too slow")));
        }
        Err(_) => inconclusive.push("plugin binary not provided".into()),
    }
    // E2E violations are reported through the same path as SIM ones
    let known = load_known();
    let mut exit_e2e = 0;
    let mut n_e2e = 0;
    for (sig, n, w) in &e2e_viol {
        if let Some((p, k, what)) = known.matches(id, sig) {
            println!("KNOWN-FINDING: property={p} {k} -- {what}");
            continue;
        }
        n_e2e += n;
        let dir = format!("{}/replays", out_dir());
        let _ = std::fs::create_dir_all(&dir);
        let path = format!("{dir}/{id}-e2e-{}.json", sig.replace('|', "_").replace('/', "_").chars().take(80).collect::<String>());
        let _ = std::fs::write(&path, serde_json::to_string_pretty(&json!({"property": id, "engine": "e2e", "signature": sig, "witness": w, "count": n, "seed": seed})).unwrap());
        println!("VIOLATION property={id} replay={path}");
        eprintln!("  {sig}: {}", w.chars().take(600).collect::<String>());
        exit_e2e = 1;
    }
    extra["e2e_violations"] = json!(n_e2e);
    let mut agg = agg;
    for i in inconclusive {
        agg.inconclusive.insert(format!("harness panic: e2e {i}"), 1);
    }
    let rt = "SIM: random seeded runs with hostile payload/metadata bytes, numeric extremes, up to 8 HTLCs per hash in every lifecycle phase, write faults (read faults in thorough); E2E: the same kinds of hostile requests against the real binary; a case is one run/session; distinct_nontrivial = distinct abstract traces among SIM runs in which the target rules were evaluated";
    let e = conclude(id, tier, seed, "exploration", &agg, &rules, rt, sim_assumptions(), t0, extra, None);
    if exit_e2e == 1 {
        1
    } else {
        e
    }
}

pub fn run_c14(id: &str, tier: &str, seed: u64) -> i32 {
    use crate::c14::*;
    let t0 = Instant::now();
    let thorough = tier == "thorough";
    install_panic_hook();
    let scripts = b_scripts();
    let reps: u64 = if thorough { 12 } else { 1 };
    let mut items: Vec<(usize, usize, u64)> = vec![];
    for (si, _) in scripts.iter().enumerate() {
        for (fi, _) in FREEZE_POINTS.iter().enumerate() {
            for r in 0..reps {
                items.push((si, fi, r));
            }
        }
    }
    let next = AtomicU64::new(0);
    let total = Mutex::new(C14Stats::default());
    std::thread::scope(|s| {
        for _ in 0..threads() {
            s.spawn(|| {
                let mut st = C14Stats::default();
                loop {
                    let i = next.fetch_add(1, Ordering::Relaxed) as usize;
                    if i >= items.len() {
                        break;
                    }
                    let (si, fi, r) = items[i];
                    let rs = mix(mix(seed, hash_str("C14")), (si as u64) << 20 | (fi as u64) << 8 | r);
                    if fi == 0 {
                        let _ = std::panic::catch_unwind(std::panic::AssertUnwindSafe(|| run_intruder_pair(&mut st, &scripts[si].0, &scripts[si].1, rs)));
                        crate::sim::PANICS.with(|p| p.borrow_mut().clear());
                    }
                    let res = std::panic::catch_unwind(std::panic::AssertUnwindSafe(|| run_pair(&mut st, &scripts[si].0, &scripts[si].1, FREEZE_POINTS[fi], rs)));
                    if res.is_err() {
                        crate::sim::PANICS.with(|p| p.borrow_mut().clear());
                        st.not_frozen += 1;
                    }
                }
                total.lock().unwrap().merge(st);
            });
        }
    });
    let mut st = total.into_inner().unwrap();
    let mut e2e_cov = Value::Null;
    let mut inconclusive = vec![];
    if let Ok(bin) = std::env::var("VMON_PLUGIN_BIN") {
        let r = crate::e2e_checks::c14_e2e(&bin, seed, if thorough { 200 } else { 24 });
        e2e_cov = r.coverage;
        for (k, v) in r.violations {
            st.violations.insert(k, v);
        }
        for (k, v) in r.evals {
            *st.evals.entry(if k == "R14a-e2e" { "R14a-e2e" } else { "e2e" }).or_insert(0) += v;
        }
        let slow = r.inconclusive.iter().filter(|x| x.contains("too slow")).count();
        if slow * 4 > if thorough { 200 } else { 24 } {
            inconclusive.push(format!("{slow} E2E isolation sessions were too slow to judge"));
        }
        inconclusive.extend(r.inconclusive.into_iter().filter(|x| !x.contains("too slow")));
    } else {
        inconclusive.push("plugin binary not provided".into());
    }
    conclude_simple(
        Simple {
            id,
            tier,
            seed,
            level: "exploration",
            engine: "c14",
            evaluations: st.pairs,
            distinct: st.classes.len() as u64,
            evals: st.evals.iter().map(|(k, v)| (k.to_string(), *v)).collect(),
            classes: BTreeMap::new(),
            violations: st.violations,
            samples: st.samples.iter().map(|s| json!(s)).collect(),
            rules: vec!["R14a", "R14b", "R14c", "R14d"],
            rule_text: "differential: payment B (1-3 HTLCs; funded / partial / rejected; fixed or amountless invoice; every pay outcome; fused or split RPC replies) is run alone and next to a payment A frozen at one of 15 (suspension point, shape of A) combinations (each RPC kind of its lifecycle, or its MPP timer; A a single part, two parts failing the expiry test, or a completing part followed by a failing one) under the same canonical schedule; B's RPC sequence, replies and answers must be identical and its answer times within 25 ms; plus B alone vs B with an HTLC of another hash that carries B's invoice (R14d: nothing pooled across hashes); a case is one (B scenario, freeze point) pair; distinct = distinct (freeze point, B shape, pay outcome) classes in which A was verifiably frozen",
            extra: json!({"b_calls_compared": st.b_calls_compared, "pairs_where_A_did_not_reach_the_freeze_point": st.not_frozen, "freeze_points": FREEZE_POINTS.iter().map(|f| format!("{}#{}", f.0, f.1)).collect::<Vec<_>>(), "e2e_isolation_sessions(real rpc.rs)": e2e_cov}),
            assumptions: vec!["attempt ids and pay labels (wall clock) are abstracted before comparing".into(), "B scenarios are scheduled canonically so that adding A cannot legitimately change B's interleaving".into(), "E2E part: a 10 s wall-clock limit for payment B while A is stuck; the fake node answers B's RPCs at once".into()],
            inconclusive,
            exhaustive: None,
        },
        t0,
    )
}
