//! Workload plans for the manager-level simulation: hostile by construction (DESIGN 2.3).

use crate::gen::*;
use crate::messages::{TrampolineInfo, TrampolineRoutingPolicy};
use crate::prng::Rng;
use crate::world::{HashInfo, Recipient, SimCfg};
use secp256k1::{PublicKey, SecretKey};
use std::time::Duration;

#[derive(Clone, Debug, PartialEq)]
pub enum Profile {
    /// default mixed workload
    Mixed,
    /// hash mismatch heavy (C01)
    Hashes,
    /// funding boundaries and amounts (C03)
    Amounts,
    /// heights and expiries (C04)
    Expiry,
    /// crashes, restarts, overlapping lifecycles (C02/C05/C08)
    Crashy,
    /// hostile bytes and numeric extremes (C06)
    Hostile,
    /// Crashy + C09 probes after the history quiesced
    Probe,
    /// rejecting HTLCs in multi-part sets (C07/C12)
    Reject,
    /// classification product (C10)
    Classify,
    /// incomplete sets and timers (C11)
    Timeout,
    /// non-trampoline traffic (C13)
    PassThrough,
}

pub struct Plan {
    pub cfg: SimCfg,
    pub local_sk: SecretKey,
    pub local_pk: PublicKey,
    pub hashes: Vec<HashInfo>,
    pub htlcs: Vec<HtlcSpec>,
}

pub fn gen_cfg(rng: &mut Rng, prof: &Profile, tier_thorough: bool) -> SimCfg {
    let policy_delta: u16 = *rng.pick(&[1008u16, 1008, 144, 40, 2, 1, 65535, 600]);
    let cltv_delta: u16 = if policy_delta <= 1 { 0 } else { *rng.pick(&[34u16, 34, 0, 1, 6]) }.min(policy_delta.saturating_sub(1));
    let (base, ppm) = match rng.below(8) {
        0 => (0, 0),
        1 => (1000, 0),
        2 => (0, 5000),
        3 => (0, 5000),
        4 => (1, 999_999),
        5 => (u32::MAX, 1_000_000),
        6 => (1000, 5000),
        _ => (rng.below(5000) as u32, rng.below(20000) as u32),
    };
    let mpp_s = match prof {
        Profile::Timeout => *rng.pick(&[1u64, 2, 5, 60, 60, 600, 3600]),
        _ => *rng.pick(&[60u64, 60, 60, 1, 5, 0, 3600]),
    };
    let mpp_s = if *prof != Profile::Mixed && *prof != Profile::Hostile && mpp_s == 0 { 60 } else { mpp_s };
    let crashy = matches!(prof, Profile::Crashy | Profile::Probe | Profile::Mixed | Profile::Hashes | Profile::Timeout);
    SimCfg {
        base,
        ppm,
        policy_delta,
        cltv_delta,
        mpp_timeout: Duration::from_secs(mpp_s),
        payment_timeout: Duration::from_secs(*rng.pick(&[60u64, 1, 65535, 100000])),
        xpay: rng.chance(1, 4),
        allow_self: rng.chance(1, 2),
        start_height: *rng.pick(&[100u32, 800_000, 1, 0, 4_000_000_000]),
        fault_tier: if (tier_thorough && rng.chance(1, 3)) || (!tier_thorough && rng.chance(1, 8)) { 2 } else if rng.chance(1, 2) { 1 } else { 0 },
        // a few runs have an outage: up to five faults, also several in a row on one retried call
        max_faults: if rng.chance(1, 6) { 6 } else { 2 },
        max_crashes: if *prof == Profile::Timeout { 1 + rng.below(2) as u32 } else if crashy { rng.below(3) as u32 } else { 0 },
        max_steps: 400,
        probe: *prof == Profile::Probe,
        age_pending_secs: if *prof == Profile::Timeout && mpp_s >= 5 { *rng.pick(&[None, Some(0u64), Some(mpp_s / 2), Some(mpp_s + 10), Some(3)]) } else { None },
        probe_age_secs: if *prof == Profile::Probe && rng.chance(1, 2) { Some(mpp_s + 100) } else { None },
        probe_same_process: *prof == Profile::Probe && rng.chance(1, 3),
    }
}

fn tramp_info(inv: &InvoiceFacts, amount: u64, cfg: &SimCfg) -> TrampolineInfo {
    let invoice: lightning_invoice::Bolt11Invoice = inv.bolt11.parse().expect("generated invoice parses");
    TrampolineInfo {
        bolt11: inv.bolt11.clone(),
        payee: invoice.get_payee_pub_key(),
        invoice,
        amount_msat: amount,
        routing_policy: TrampolineRoutingPolicy {
            fee_base_msat: cfg.base,
            fee_proportional_millionths: cfg.ppm,
            cltv_expiry_delta: cfg.policy_delta,
        },
    }
}

pub fn fee_of(cfg: &SimCfg, a: u64) -> u128 {
    cfg.base as u128 + (a as u128 * cfg.ppm as u128) / 1_000_000
}

fn pick_amount(rng: &mut Rng, prof: &Profile) -> u64 {
    match prof {
        Profile::Amounts | Profile::Hostile => *rng.pick(&[1_000_000u64, 1, 0, 999_999, 1_000_001, 21_000_000_0000_0000, 1_800_000_000_000_000_000, 4_294_967_296, 123_456_789]),
        _ => *rng.pick(&[1_000_000u64, 1_000_000, 50_000, 1, 2_000_000_000, 123_456_789]),
    }
}

/// split `total` into `n` positive-ish parts
fn split(rng: &mut Rng, total: u128, n: usize) -> Vec<u64> {
    let total = total.min(2_100_000_000_000_000_000u128) as u64;
    if n <= 1 {
        return vec![total];
    }
    let mut cuts: Vec<u64> = (0..n - 1).map(|_| if total == 0 { 0 } else { rng.below(total + 1) }).collect();
    cuts.sort();
    let mut out = vec![];
    let mut prev = 0;
    for c in cuts {
        out.push(c - prev);
        prev = c;
    }
    out.push(total - prev);
    out
}

pub fn std_payload_recs(rng: &mut Rng, amt: u64, expiry: u32, total: Option<u64>) -> Vec<Rec> {
    let mut v: Vec<Rec> = vec![(2, tu64(amt)), (4, tu64(expiry as u64))];
    if let Some(t) = total {
        let mut pd = vec![0x2a; 32];
        pd.extend_from_slice(&tu64(t));
        v.push((8, pd));
    }
    if rng.chance(1, 4) {
        v.push((65537 + 2 * rng.below(4), rng.rbytes(40)));
    }
    if rng.chance(1, 3) {
        // neighbours of the payment-metadata record (16)
        v.push((*rng.pick(&[11u64, 13, 15, 17, 19, 0xfd, 0xff]), rng.rbytes(12)));
    }
    if rng.chance(1, 8) {
        v.push((0x1_0000_0001 + 2 * rng.below(4), rng.rbytes(300)));
    }
    v.sort_by_key(|r| r.0);
    v
}

pub fn gen_plan(rng: &mut Rng, prof: &Profile, thorough: bool) -> Plan {
    let cfg = gen_cfg(rng, prof, thorough);
    let local_sk = secret_key(rng);
    let local_pk = pubkey(&local_sk);
    let n_hashes = match prof {
        Profile::Hashes => 2 + rng.below(2) as usize,
        _ => 1 + rng.weighted(&[6, 3, 1]),
    };
    let mut hashes: Vec<HashInfo> = vec![];
    let mut keys: Vec<(SecretKey, SecretKey)> = vec![];
    for idx in 0..n_hashes {
        let mut pre = [0u8; 32];
        pre.copy_from_slice(&rng.bytes(32));
        let hash = sha256_of(&pre);
        let payee_sk = secret_key(rng);
        let other_sk = secret_key(rng);
        let base_inv = make_invoice(&InvoiceSpec {
            payment_hash: hash,
            amount_msat: Some(1000),
            signer: Signer::Payee,
            hints: Hints::None,
            payee_sk,
            other_sk,
            local_pubkey: local_pk,
            salt: 200 + idx as u8,
        });
        let recipient = match prof {
            Profile::Crashy | Profile::Probe | Profile::Mixed => *rng.pick(&[Recipient::Settle, Recipient::Settle, Recipient::Mixed, Recipient::FailAll]),
            _ => *rng.pick(&[Recipient::Settle, Recipient::Settle, Recipient::Settle, Recipient::Mixed, Recipient::FailAll]),
        };
        hashes.push(HashInfo { idx, preimage: pre, hash, hex: hex::encode(hash), tramp: tramp_info(&base_inv, 1000, &cfg), recipient });
        keys.push((payee_sk, other_sk));
    }

    let mut htlcs: Vec<HtlcSpec> = vec![];
    let mut uid = 0usize;
    let mut next_id = 0u64;
    let height = cfg.start_height;
    for hi in 0..n_hashes {
        let (payee_sk, other_sk) = keys[hi];
        // the set's invoice
        let amountless = rng.chance(1, 4);
        let amount = pick_amount(rng, prof);
        let amount = if amount == 0 && !amountless { 1 } else { amount };
        // stay inside the domain where amount*ppm fits 64 bits: beyond it fee_sufficient is
        // deliberately conservative (pinned by the repo's own fee_mul_overflow test), which is
        // recorded as a known finding under C12 and must not leak into the other checks
        let amount = if cfg.ppm > 0 && (amount as u128 * cfg.ppm as u128) > (u64::MAX as u128) / 2 { (u64::MAX / 2) / cfg.ppm as u64 } else { amount };
        let signer = match prof {
            Profile::Classify => rng.pick(&[Signer::Payee, Signer::ExplicitPayee, Signer::ExplicitPayeeWrongKey, Signer::RecoveredOther, Signer::ExplicitPayeeOtherRecid]).clone(),
            _ => rng.pick(&[Signer::Payee, Signer::Payee, Signer::Payee, Signer::ExplicitPayee, Signer::RecoveredOther, Signer::ExplicitPayeeWrongKey, Signer::ExplicitPayeeOtherRecid]).clone(),
        };
        let hints = match prof {
            Profile::Classify => rng.pick(&[Hints::None, Hints::Other, Hints::SelfLast, Hints::SelfNotLast, Hints::OtherThenSelfLast]).clone(),
            _ => rng.pick(&[Hints::None, Hints::None, Hints::Other, Hints::SelfLast, Hints::SelfNotLast]).clone(),
        };
        // which hash the invoice commits to
        let mismatch = match prof {
            Profile::Hashes => rng.chance(3, 10),
            Profile::Classify => rng.chance(1, 4),
            _ => rng.chance(1, 20),
        };
        let inv_hash = if mismatch {
            if n_hashes > 1 && rng.chance(2, 3) {
                hashes[(hi + 1) % n_hashes].hash
            } else {
                let mut x = [0u8; 32];
                x.copy_from_slice(&rng.bytes(32));
                x
            }
        } else {
            hashes[hi].hash
        };
        let inv = make_invoice(&InvoiceSpec {
            payment_hash: inv_hash,
            amount_msat: if amountless { None } else { Some(amount) },
            signer,
            hints,
            payee_sk,
            other_sk,
            local_pubkey: local_pk,
            salt: hi as u8,
        });
        let amt_field = match rng.below(if *prof == Profile::Classify { 6 } else { 12 }) {
            0 => AmtField::Bytes(tu64(amount)),
            1 => AmtField::Bytes(tu64(match rng.below(4) {
                0 => amount.wrapping_add(1),
                1 => amount.saturating_sub(1),
                2 => amount / 10,
                _ => amount / 2 + 1,
            })),
            2 => AmtField::Bytes(rng.bytes(9)),
            3 => AmtField::Bytes({
                let mut b = vec![0u8; 8 - tu64(amount).len()];
                b.extend_from_slice(&tu64(amount));
                b
            }),
            4 => AmtField::Bytes(vec![]),
            _ => {
                if amountless {
                    AmtField::Bytes(tu64(amount))
                } else {
                    AmtField::Absent
                }
            }
        };
        let set_amount = ref_amount(inv.amount_msat, &amt_field);
        let a = set_amount.unwrap_or(amount);
        let need: u128 = a as u128 + fee_of(&cfg, a);
        // funding shape
        let n_parts = match prof {
            Profile::Reject | Profile::Amounts => 1 + rng.below(5) as usize,
            Profile::Hostile => 1 + rng.below(8) as usize,
            _ => 1 + rng.weighted(&[5, 3, 1, 1]),
        };
        let funding: u128 = match (prof, rng.below(10)) {
            (Profile::Timeout, 0..=6) => need.saturating_sub(1 + rng.below(1000) as u128),
            (_, 0) => need.saturating_sub(1),
            (_, 1) => need + 1,
            (_, 2) => need + rng.below(1_000_000) as u128,
            (_, 3) if *prof != Profile::Crashy && *prof != Profile::Probe => need / 2,
            _ => need,
        };
        let honest_total = funding.min(u64::MAX as u128) as u64;
        let amounts = split(rng, funding, n_parts);
        for (k, am) in amounts.iter().enumerate() {
            let rel: i64 = match (prof, rng.below(10)) {
                (Profile::Expiry, 0) | (Profile::Reject, 0) => cfg.policy_delta as i64 - 1,
                (Profile::Expiry, 1) => cfg.policy_delta as i64,
                (Profile::Expiry, 2) => cfg.policy_delta as i64 + 70000,
                (Profile::Expiry, 3) => cfg.cltv_delta as i64 + rng.below(3) as i64,
                (Profile::Hostile, 0) => -5,
                (_, 4) => cfg.policy_delta as i64 + rng.below(50) as i64,
                (_, 5) if *prof == Profile::Mixed => cfg.policy_delta as i64 - 1,
                _ => cfg.policy_delta as i64 + 10,
            };
            let expiry = ((height as i64 + rel).max(0) as u64).min(u32::MAX as u64) as u32;
            let declared_total = match (prof, rng.below(12)) {
                (Profile::Reject, 0) | (Profile::Mixed, 0) => Some(need.saturating_sub(1).min(u64::MAX as u128) as u64),
                (Profile::Hostile, 0) => Some(u64::MAX),
                (Profile::Hostile, 1) => Some(0),
                (_, 2) => None,
                _ => Some(honest_total),
            };
            let forward = if declared_total.is_none() && n_parts == 1 { Some(honest_total) } else { Some(*am) };
            // an incoming HTLC usually carries a little more than the onion says to forward
            let forward = match forward {
                Some(f) if rng.chance(1, 4) => Some(f.saturating_sub(1 + rng.below(2000))),
                // or claims to forward more than the HTLC actually carries (sender-controlled onion)
                Some(f) if rng.chance(1, 8) => Some(f.saturating_add(if rng.chance(1, 2) { need.min(u64::MAX as u128) as u64 } else { 1 + rng.below(5000) })),
                f => f,
            };
            let forward = if rng.chance(1, 60) { None } else { forward };
            // conflicting invoice / amount for the same hash
            let (m_inv, m_amt) = if k > 0 && matches!(prof, Profile::Reject | Profile::Mixed) && rng.chance(1, 6) {
                if amountless && rng.chance(1, 2) {
                    (inv.clone(), AmtField::Bytes(tu64(a.wrapping_add(7))))
                } else {
                    let other = make_invoice(&InvoiceSpec {
                        payment_hash: inv_hash,
                        amount_msat: if amountless { None } else { Some(amount) },
                        signer: Signer::Payee,
                        hints: Hints::None,
                        payee_sk,
                        other_sk,
                        local_pubkey: local_pk,
                        salt: 100 + k as u8,
                    });
                    (other, amt_field.clone())
                }
            } else {
                (inv.clone(), amt_field.clone())
            };
            // one request in twelve carries its amount record in front of the invoice record
            let (m_amt, amt_first) = match (&m_amt, rng.chance(1, 12)) {
                (AmtField::Bytes(b), true) => (AmtField::Absent, vec![(33003u64, b.clone())]),
                _ => (m_amt, vec![]),
            };
            let metadata = Metadata::Tramp {
                invoice: m_inv,
                amt: m_amt,
                extra_before: if !amt_first.is_empty() { amt_first } else if rng.chance(1, 10) { vec![(1, rng.bytes(3))] } else { vec![] },
                extra_after: if rng.chance(1, 10) { vec![(40001, rng.bytes(5))] } else { vec![] },
            };
            let onion_scid = if rng.chance(1, 40) { Some("1x2x3".to_string()) } else { None };
            let label = ref_label(&hashes[hi].hash, &onion_scid, &forward, &metadata, cfg.allow_self);
            htlcs.push(HtlcSpec {
                uid,
                scid: format!("{}x{}x{}", 100 + hi, 1, k % 3),
                htlc_id: next_id,
                htlc_hash: hashes[hi].hash,
                amount_msat: *am,
                cltv_expiry: expiry,
                forward_msat: forward,
                total_msat: declared_total,
                onion_scid,
                other_recs: std_payload_recs(rng, *am, expiry, declared_total),
                metadata,
                raw_payload_hex: None,
                label,
                gate: Gate::None,
                hash_hex_override: None,
            });
            uid += 1;
            next_id += 1;
        }
        // the sender retries the same invoice with a fresh, identical set (new HTLC ids); the
        // scheduler may deliver it while the first lifecycle is still finishing its bookkeeping
        if matches!(prof, Profile::Crashy | Profile::Probe | Profile::Mixed | Profile::Reject) && rng.chance(1, 3) {
            let first = htlcs.len() - amounts.len();
            let copies: Vec<HtlcSpec> = htlcs[first..].to_vec();
            let first_uid = uid;
            for mut c in copies {
                c.uid = uid;
                c.htlc_id = next_id;
                c.gate = if uid == first_uid { Gate::HashIdle } else { Gate::After(first_uid) };
                htlcs.push(c);
                uid += 1;
                next_id += 1;
            }
        }
        // a late extra HTLC for the same set (arrives whenever the scheduler picks it)
        if rng.chance(1, 4) {
            let mut extra = htlcs[htlcs.len() - 1].clone();
            extra.uid = uid;
            extra.htlc_id = next_id;
            extra.amount_msat = 1 + rng.below(1000);
            extra.forward_msat = Some(extra.amount_msat);
            extra.label = ref_label(&hashes[hi].hash, &extra.onion_scid, &extra.forward_msat, &extra.metadata, cfg.allow_self);
            htlcs.push(extra);
            uid += 1;
            next_id += 1;
        }
    }
    // intruders: an HTLC locked to another payment hash that carries *the same invoice string*
    // as an honest set (it must never be pooled with that set or settled with its preimage)
    let n_intruders = match prof {
        Profile::Hashes => 1 + rng.below(2) as usize,
        Profile::Mixed | Profile::Classify | Profile::Crashy => rng.weighted(&[3, 1]),
        _ => 0,
    };
    for _ in 0..n_intruders {
        let candidates: Vec<usize> = (0..htlcs.len()).filter(|k| matches!(htlcs[*k].metadata, Metadata::Tramp { .. })).collect();
        if candidates.is_empty() {
            break;
        }
        let src = htlcs[*rng.pick(&candidates)].clone();
        let mut x = src.clone();
        x.uid = uid;
        x.htlc_id = next_id;
        x.gate = Gate::None;
        x.htlc_hash = if n_hashes > 1 && rng.chance(1, 2) {
            let other: Vec<[u8; 32]> = hashes.iter().map(|h| h.hash).filter(|h| *h != src.htlc_hash).collect();
            *rng.pick(&other)
        } else {
            let mut r = [0u8; 32];
            r.copy_from_slice(&rng.bytes(32));
            r
        };
        if rng.chance(1, 4) {
            // a payment hash that is not 32 bytes long: a prefix or an extension of the honest one
            let mut h = src.htlc_hash.to_vec();
            if rng.chance(1, 2) {
                h.truncate(31 - rng.below(3) as usize);
            } else {
                h.push(rng.u64() as u8);
            }
            x.hash_hex_override = Some(hex::encode(h));
        }
        x.label = ref_label(&x.htlc_hash, &x.onion_scid, &x.forward_msat, &x.metadata, cfg.allow_self);
        if x.hash_hex_override.is_some() && matches!(x.label, RefLabel::Tramp { .. } | RefLabel::FailClassify) {
            // the hash actually sent is not the 32-byte hash the label was computed from: it can
            // never equal the invoice's hash
            x.label = RefLabel::NotTramp;
        }
        // right after the honest HTLC, or at the end
        let pos = if rng.chance(1, 2) { htlcs.iter().position(|h| h.uid == src.uid).map(|p| p + 1).unwrap_or(htlcs.len()) } else { htlcs.len() };
        htlcs.insert(pos, x);
        uid += 1;
        next_id += 1;
    }
    // metadata that is *almost* a trampoline request: a valid invoice record followed by a
    // truncated trailing record. It is not a valid TLV stream, hence unusable: continue.
    if matches!(prof, Profile::PassThrough | Profile::Classify | Profile::Mixed | Profile::Hostile) && rng.chance(1, 3) {
        let cands: Vec<usize> = (0..htlcs.len()).filter(|k| matches!(&htlcs[*k].metadata, Metadata::Tramp { invoice, .. } if invoice.payee.is_some() && invoice.amount_msat.is_some())).collect();
        if !cands.is_empty() {
            let src = htlcs[*rng.pick(&cands)].clone();
            if let Metadata::Tramp { invoice, .. } = &src.metadata {
                let mut raw = enc_stream(&[(33001, invoice.bolt11.as_bytes().to_vec())]);
                // type 40001, declared length 16, only 0-3 bytes present
                put_bigsize(&mut raw, 40001);
                raw.push(16);
                raw.extend(rng.rbytes(4));
                let mut x = src.clone();
                x.uid = uid;
                x.htlc_id = next_id;
                x.gate = Gate::None;
                // same payment hash as the invoice (otherwise the hash check alone would pass it on)
                x.metadata = Metadata::Raw(raw);
                x.label = RefLabel::Continue;
                htlcs.push(x);
                uid += 1;
                next_id += 1;
            }
        }
    }
    // non-trampoline traffic
    let n_plain = match prof {
        Profile::PassThrough => 3 + rng.below(4) as usize,
        Profile::Classify => 1,
        _ => rng.weighted(&[5, 3, 1]),
    };
    for _ in 0..n_plain {
        let mut h = [0u8; 32];
        h.copy_from_slice(&rng.bytes(32));
        let am = 1 + rng.below(5_000_000);
        let expiry = height.saturating_add(50 + rng.below(2000) as u32);
        let kind = rng.below(10);
        let metadata = match kind {
            // length-prefixed streams: unusable as trampoline metadata, but they make the plugin
            // take its payload-rewrite path (record 16 stripped from the continue payload)
            7 => Metadata::Raw(with_len_prefix(&enc_stream(&[(33003, tu64(am))]))),
            8 => Metadata::Raw(with_len_prefix(&enc_stream(&[(1, rng.bytes(2)), (33001, b"lnbc1notaninvoice".to_vec())]))),
            9 => Metadata::Raw(with_len_prefix(&enc_stream(&[(33001, vec![0xff, 0xfe]), (33003, rng.bytes(9))]))),
            0 | 1 => Metadata::None,
            2 => Metadata::Raw(rng.rbytes(40)),
            3 => Metadata::Raw(enc_stream(&[(1, rng.bytes(4)), (7, rng.bytes(9))])),
            4 => Metadata::Raw(enc_stream(&[(33003, tu64(am))])),
            5 => Metadata::Raw(enc_stream(&[(33001, b"lnbc1notaninvoice".to_vec())])),
            _ => Metadata::Raw(enc_stream(&[(33001, vec![0xff, 0xfe, 0x80])])),
        };
        let onion_scid = if kind <= 1 && rng.chance(2, 3) { Some(format!("{}x{}x{}", 700_000 + rng.below(1000), rng.below(3000), rng.below(5))) } else { None };
        let forward = if rng.chance(1, 10) { None } else { Some(am) };
        let total = if onion_scid.is_none() && rng.chance(1, 2) { Some(am) } else { None };
        // Metadata::Raw that happens to be a well-formed TLV stream with the odd garbage
        // is still non-trampoline: no parsable invoice inside.
        let label = RefLabel::Continue;
        htlcs.push(HtlcSpec {
            uid,
            scid: "55x5x5".into(),
            htlc_id: next_id,
            htlc_hash: h,
            amount_msat: am,
            cltv_expiry: expiry,
            forward_msat: forward,
            total_msat: total,
            onion_scid,
            other_recs: std_payload_recs(rng, am, expiry, total),
            metadata,
            raw_payload_hex: None,
            label,
            gate: Gate::None,
            hash_hex_override: None,
        });
        uid += 1;
        next_id += 1;
    }
    // delivery order: per-hash order mostly preserved, hashes interleaved
    if rng.chance(1, 2) {
        rng.shuffle(&mut htlcs);
    }
    Plan { cfg, local_sk, local_pk, hashes, htlcs }
}
