//! C09 probes: after a history has quiesced, restart and offer a fresh, fully funded,
//! well-formed set for the same invoice; within three probes one must settle.

use crate::gen::*;
use crate::world::*;

/// Adds probe HTLCs for every hash that saw a trampoline attempt. Returns true when no
/// further probe is needed (every hash already settled a probe).
pub fn add_probe(w: &mut World, round: u32) -> bool {
    let mut added = false;
    for i in 0..w.hashes.len() {
        // already satisfied?
        let ok = w.htlcs.iter().any(|h| h.is_probe && h.hidx == Some(i) && matches!(h.answer, Some(Answer { kind: AnsKind::Resolve(_), .. })));
        if ok {
            continue;
        }
        // template: first Tramp-labelled HTLC of the hash
        let t = w.htlcs.iter().find(|h| h.hidx == Some(i) && !h.is_probe && matches!(h.spec.label, RefLabel::Tramp { .. })).map(|h| h.spec.clone());
        let t = match t {
            Some(t) => t,
            None => continue,
        };
        let a = match &t.label {
            RefLabel::Tramp { amount_msat, .. } => *amount_msat,
            _ => continue,
        };
        let need = a as u128 + w.cfg.base as u128 + (a as u128 * w.cfg.ppm as u128) / 1_000_000;
        if need > 2_000_000_000_000_000_000u128 {
            continue;
        }
        let mut s = t.clone();
        s.uid = w.htlcs.len();
        s.htlc_id = 10_000 + w.htlcs.len() as u64;
        s.amount_msat = need as u64;
        s.forward_msat = Some(need as u64);
        s.total_msat = Some(need as u64);
        s.cltv_expiry = w.node.height.saturating_add(w.cfg.policy_delta as u32 + 20);
        s.other_recs = vec![(2, tu64(s.amount_msat)), (4, tu64(s.cltv_expiry as u64))];
        w.hashes[i].recipient = Recipient::Settle;
        w.ev(|| format!("PROBE round {round} for hash {i}"));
        w.htlcs.push(HtlcRt {
            hidx: Some(i),
            spec: s,
            state: HState::Planned,
            lifetime: 0,
            delivered_step: 0,
            delivered_ms: 0,
            deliveries: 0,
            answer: None,
            set_id: 0,
            funding_pay: None,
            is_probe: true,
            calls_before: 0,
            tracked_before: None,
        });
        added = true;
    }
    // no more faults or crashes during probes
    w.cfg.max_faults = 0;
    w.cfg.max_crashes = 0;
    w.cfg.fault_tier = 0;
    w.stall_pct = 0;
    w.cooperative = true;
    !added
}

pub fn judge(w: &mut World) {
    for i in 0..w.hashes.len() {
        let probes: Vec<usize> = w.htlcs.iter().enumerate().filter(|(_, h)| h.is_probe && h.hidx == Some(i)).map(|(k, _)| k).collect();
        if probes.is_empty() {
            continue;
        }
        let ok = probes.iter().any(|k| matches!(w.htlcs[*k].answer, Some(Answer { kind: AnsKind::Resolve(_), .. })));
        w.stats.eval("R09", probes.len() as u64 | ((ok as u64) << 4));
        if !ok && probes.len() >= 3 {
            let answers: Vec<String> = probes.iter().map(|k| w.htlcs[*k].answer.as_ref().map(|a| short(&a.json)).unwrap_or("unanswered".into())).collect();
            let rec = w.rec(i);
            w.violate("C09", "R09", format!("R09|wedged|rec={}", rec.name()), format!("hash {} stays unpayable after {} probes: {answers:?}", w.hashes[i].hex, probes.len()));
        }
    }
}
