//! C12 / C18: PURE engine orchestration. The same workload runs in this (debug, overflow
//! checks on) process, in the release build of vmon (wrapping arithmetic) and, in the
//! thorough tier, under Miri (crate /verif/harness-pure).

use crate::checks::{campaign, load_known, out_dir, threads, verif_dir};
use crate::evidence::Evidence;
use crate::plan::Profile;
use crate::pure::*;
use serde_json::{json, Value};
use std::collections::BTreeMap;
use std::sync::Mutex;
use std::time::Instant;

pub fn silent_hook() {
    std::panic::set_hook(Box::new(|_| {}));
}

/// The native workload of one build. `scale` = 1 quick, larger thorough.
pub fn workload(id: &str, thorough: bool, seed: u64) -> PureStats {
    silent_hook();
    let n_threads = threads() as u64;
    let total = Mutex::new(PureStats::default());
    std::thread::scope(|s| {
        for t in 0..n_threads {
            let total = &total;
            s.spawn(move || {
                let mut st = PureStats::default();
                match id {
                    "C18" => {
                        let piece = std::env::var("VMON_PURE_PIECE").unwrap_or_default();
                        if piece.is_empty() || piece == "ex" {
                            tlv_exhaustive(&mut st, 3, t, n_threads);
                        }
                        if piece.is_empty() || piece == "al" {
                            tlv_alphabet(&mut st, if thorough { 8 } else { 7 }, t, n_threads);
                        }
                        if piece.is_empty() || piece == "st" {
                            tlv_structured(&mut st, seed.wrapping_mul(1000).wrapping_add(t), if thorough { 2_000_000 } else { 150_000 });
                        }
                    }
                    _ => {
                        if t == 0 {
                            fee_boundary(&mut st);
                            fee_encoding(&mut st, seed, 100_000);
                        }
                        fee_random(&mut st, seed.wrapping_mul(1000).wrapping_add(t), if thorough { 60_000_000 } else { 2_000_000 });
                    }
                }
                total.lock().unwrap().merge(st);
            });
        }
    });
    total.into_inner().unwrap()
}

/// `vmon pure-sub <id> --tier T --seed S`: print the stats of this build as JSON.
pub fn pure_sub(id: &str, tier: &str, seed: u64) -> i32 {
    let st = workload(id, tier == "thorough", seed);
    println!("{}", st.to_json_string());
    0
}

fn run_json(cmd: &mut std::process::Command) -> Result<Value, String> {
    let out = cmd.output().map_err(|e| format!("spawn: {e}"))?;
    if !out.status.success() {
        return Err(format!("exit {:?}: {}", out.status.code(), String::from_utf8_lossy(&out.stderr).chars().rev().take(1500).collect::<String>().chars().rev().collect::<String>()));
    }
    let s = String::from_utf8_lossy(&out.stdout);
    let line = s.lines().rev().find(|l| l.starts_with('{')).ok_or("no json in output")?;
    serde_json::from_str(line).map_err(|e| format!("json: {e}"))
}

pub fn run_pure_check(id: &str, tier: &str, seed: u64) -> i32 {
    let t0 = Instant::now();
    let thorough = tier == "thorough";
    let rules: &[&str] = if id == "C18" { &["R18a", "R18b", "R18c", "R18d"] } else { &["R12a"] };
    let mut builds: Vec<(String, Value)> = vec![];
    let mut inconclusive: Vec<String> = vec![];
    // 1. debug build (this binary), in a child process: an abort (allocation failure, stack
    //    overflow, double panic) escapes catch_unwind and must not take the checker down
    let mut aborted: Vec<(String, String)> = vec![];
    let me = std::env::current_exe().map(|p| p.to_string_lossy().to_string()).unwrap_or_default();
    let dbg_json: Value = match run_json(std::process::Command::new(&me).args(["pure-sub", id, "--tier", tier, "--seed", &seed.to_string()])) {
        Ok(v) => v,
        Err(e) => {
            aborted.push(("native-debug(overflow-checks)".into(), e));
            json!({"cases": 0, "evals": {}, "classes": {}, "violations": {}, "samples": []})
        }
    };
    builds.push(("native-debug(overflow-checks)".into(), dbg_json.clone()));
    let dbg_evals = |r: &str| dbg_json["evals"][r].as_u64().unwrap_or(0);
    let dbg_classes = |r: &str| dbg_json["classes"][r].as_u64().unwrap_or(0);
    // 2. release build of vmon
    match std::env::var("VMON_RELEASE_BIN") {
        Ok(p) if std::path::Path::new(&p).exists() => match run_json(std::process::Command::new(&p).args(["pure-sub", id, "--tier", tier, "--seed", &seed.to_string()])) {
            Ok(v) => builds.push(("native-release(wrapping)".into(), v)),
            Err(e) => aborted.push(("native-release(wrapping)".into(), e)),
        },
        _ => inconclusive.push("release build of the harness not available".into()),
    }
    // 3. Miri (thorough)
    let mut miri_note = Value::Null;
    if thorough {
        match std::env::var("VMON_PURE_DIR") {
            Ok(d) => {
                let mut c = std::process::Command::new("cargo");
                c.current_dir(&d)
                    .env("CARGO_TARGET_DIR", format!("{}/target-miri", out_dir()))
                    .env("MIRIFLAGS", "-Zmiri-disable-isolation")
                    .env("RUSTFLAGS", "-Awarnings")
                    .args(["+nightly", "miri", "run", "--offline", "--", id, "--seed", &seed.to_string()]);
                match run_json(&mut c) {
                    Ok(v) => builds.push(("miri".into(), v)),
                    Err(e) => {
                        miri_note = json!(format!("miri run did not complete: {}", e.chars().take(600).collect::<String>()));
                        inconclusive.push("miri sub-step inconclusive".into());
                    }
                }
            }
            Err(_) => inconclusive.push("miri crate dir not provided".into()),
        }
    }
    // SIM part of C12 (R12b, R12c)
    let mut sim_cov = Value::Null;
    let mut sim_viol: Vec<(String, String, String)> = vec![];
    if id == "C12" {
        let agg = campaign("C12", &["R12b", "R12c"], seed, thorough, &[Profile::Reject, Profile::Mixed, Profile::Amounts], if thorough { 600_000 } else { 20_000 }, if thorough { 900 } else { 60 });
        for (rs, prof, v) in &agg.violations {
            let path = crate::checks::write_replay("C12", *rs, prof, thorough, v, json!({"engine": "sim"}));
            sim_viol.push((v.signature.clone(), v.detail.clone(), path));
        }
        let e = |r: &str| agg.stats.evals.get(r).copied().unwrap_or(0);
        if e("R12b") == 0 || e("R12c") == 0 {
            inconclusive.push("SIM part observed nothing for R12b/R12c".into());
        }
        sim_cov = json!({"runs": agg.runs, "R12b_evaluations": e("R12b"), "R12c_evaluations": e("R12c"), "distinct_abstract_traces": agg.target_sigs.len(), "cross_observations": agg.cross});
    }
    // verdict
    let known = load_known();
    let mut exit = 0;
    let mut n_viol = 0u64;
    let mut seen_known: Vec<String> = vec![];
    let mut total_cases = 0u64;
    let mut per_build = BTreeMap::new();
    for (name, v) in &builds {
        total_cases += v["cases"].as_u64().unwrap_or(0);
        per_build.insert(name.clone(), json!({"cases": v["cases"], "rule_evaluations": v["evals"], "distinct_classes": v["classes"], "violation_signatures": v["violations"].as_object().map(|m| m.keys().cloned().collect::<Vec<_>>()).unwrap_or_default()}));
        if let Some(m) = v["violations"].as_object() {
            for (sig, w) in m {
                let witness = w[1].as_str().unwrap_or("").to_string();
                if let Some((p, s, what)) = known.matches(id, sig) {
                    if !seen_known.contains(s) {
                        println!("KNOWN-FINDING: property={p} {s} -- {what}");
                        seen_known.push(s.clone());
                    }
                    continue;
                }
                n_viol += w[0].as_u64().unwrap_or(1);
                let dir = format!("{}/replays", out_dir());
                let _ = std::fs::create_dir_all(&dir);
                let path = format!("{dir}/{id}-pure-{}.json", sig.replace('|', "_"));
                let _ = std::fs::write(&path, serde_json::to_string_pretty(&json!({"property": id, "engine": "pure", "build": name, "signature": sig, "witness": witness, "count": w[0]})).unwrap());
                println!("VIOLATION property={id} replay={path}");
                eprintln!("  [{name}] {sig}: {witness}");
                exit = 1;
            }
        }
    }
    for (build, e) in &aborted {
        // the workload process died: decoding / the fee test must never abort the process
        let sig = format!("{}|process-aborted", if id == "C18" { "R18a" } else { "R12a" });
        if let Some((p, s, what)) = known.matches(id, &sig) {
            println!("KNOWN-FINDING: property={p} {s} -- {what}");
            continue;
        }
        n_viol += 1;
        let dir = format!("{}/replays", out_dir());
        let _ = std::fs::create_dir_all(&dir);
        let path = format!("{dir}/{id}-pure-process-aborted.json");
        let _ = std::fs::write(&path, serde_json::to_string_pretty(&json!({"property": id, "engine": "pure", "build": build, "signature": sig, "witness": e, "rerun": format!("{me} pure-sub {id} --tier {tier} --seed {seed}")})).unwrap());
        println!("VIOLATION property={id} replay={path}");
        eprintln!("  [{build}] {sig}: {}", e.chars().take(500).collect::<String>());
        exit = 1;
    }
    for (sig, detail, path) in &sim_viol {
        if let Some((p, s, what)) = known.matches(id, sig) {
            if !seen_known.contains(s) {
                println!("KNOWN-FINDING: property={p} {s} -- {what}");
                seen_known.push(s.clone());
            }
            continue;
        }
        n_viol += 1;
        println!("VIOLATION property={id} replay={path}");
        eprintln!("  [sim] {sig}: {detail}");
        exit = 1;
    }
    let target_evals: u64 = rules.iter().map(|r| dbg_evals(r)).sum();
    let distinct: u64 = rules.iter().map(|r| dbg_classes(r)).sum();
    if exit == 0 && (rules.iter().any(|r| dbg_evals(r) == 0) || !inconclusive.is_empty()) {
        println!("INCONCLUSIVE property={id} {:?}", inconclusive);
        exit = 2;
    }
    let rule_text = if id == "C18" {
        "inputs: every byte string of length <= 3 (exhaustive), every string of length <= 7 (8 thorough) over {00,01,02,fc,fd,fe,ff} (exhaustive), structure-aware random canonical streams with every truncation, hostile mutations, boundary BigSize values; each through from_bytes, try_from, to_bytes, get_tu64 against an independent reference codec; distinct = distinct (length, first byte) / (record count, widths) classes in which the rules were evaluated, measured in the debug build"
    } else {
        "inputs: boundary cross product POLICY_VALUES^2 x boundary(total, amount) incl. the three overflow frontiers and the exact requirement +-1, plus random cases biased to the frontiers; oracle = the predicate in u128; distinct = distinct (expected result, mul-overflow, add-overflow, at-boundary, base=0, ppm=0, amount>total) classes evaluated, measured in the debug build; R12b/R12c on SIM runs"
    };
    Evidence {
        property_id: id.to_string(),
        tier: tier.to_string(),
        seed,
        level: "exploration".into(),
        coverage: json!({
            "evaluations": total_cases,
            "distinct_nontrivial": distinct,
            "rule": rule_text,
            "samples": dbg_json["samples"],
            "builds": per_build,
            "target_rule_evaluations_debug": target_evals,
            "exhaustive_parts": if id == "C18" { json!(["all byte strings of length <= 3", "all strings over the 7-letter alphabet up to length 7/8"]) } else { json!(["boundary cross product"]) },
            "sim_part": sim_cov,
            "miri": miri_note,
            "inconclusive": inconclusive,
            "known_findings_matched": seen_known,
        }),
        assumptions: vec!["the reference codec / u128 predicate in the harness is the specification".into(), "a panic is observed through catch_unwind (an abort would kill the sub-process and is reported as inconclusive for that build)".into()],
        wall_s: t0.elapsed().as_secs_f64(),
        violations: n_viol,
    }
    .write(&format!("{}/evidence/{id}.json", verif_dir()));
    eprintln!("[{id}] builds={} cases={} target_evals(debug)={} classes={} violations={} known={} wall={:.1}s", builds.len(), total_cases, target_evals, distinct, n_viol, seen_known.len(), t0.elapsed().as_secs_f64());
    exit
}
