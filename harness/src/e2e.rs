//! E2E engine (DESIGN 2.4): the real `trampoline` binary as a child process under a fake
//! lightningd (stdio for the plugin protocol, a unix socket for JSON-RPC). The fake node is
//! one thread that totally orders what it sees.

use crate::node::{Node, PartStatus, RpcErr};
use crate::prng::Rng;
use serde_json::{json, Value};
use std::collections::BTreeMap;
use std::io::{Read, Write};
use std::os::unix::net::{UnixListener, UnixStream};
use std::process::{Child, Command, Stdio};
use std::sync::mpsc::{channel, Receiver, RecvTimeoutError};
use std::sync::{Arc, Mutex};
use std::time::{Duration, Instant};

pub const NODE_ID: &str = "0279be667ef9dcbbac55a06295ce870b07029bfcdb2dce28d959f2815b16f81798";

pub enum Ev {
    Out(Vec<u8>),
    OutEof,
    Rpc(Value, UnixStream),
}

#[derive(Clone, Debug, PartialEq)]
pub enum PayPolicy {
    /// create a part, complete it, answer complete with the preimage (if known)
    Complete,
    /// answer failed, no parts
    Fail,
    /// never answer
    Hold,
}

pub struct Session {
    pub child: Child,
    /// bytes for the plugin's stdin go through a writer thread: a plugin that stops reading (a
    /// deadlock) must not block the checker in write()
    pub stdin: Option<std::sync::mpsc::Sender<Vec<(Vec<u8>, bool)>>>,
    pub events: Receiver<Ev>,
    pub node: Node,
    pub dir: String,
    pub out_buf: Vec<u8>,
    pub docs: Vec<(Instant, Value)>,
    pub bad_docs: Vec<String>,
    pub stderr: Arc<Mutex<String>>,
    pub out_eof: bool,
    pub pay_policy: PayPolicy,
    pub preimages: BTreeMap<String, [u8; 32]>,
    pub pays_seen: Vec<Value>,
    pub rpc_log: Vec<String>,
    pub held: Vec<UnixStream>,
    /// waitsendpay calls that lightningd answers late, on demand (stream, request id, part index)
    pub late: Vec<(UnixStream, Value, usize)>,
    pub first_wait: Option<(UnixStream, Value, usize)>,
    /// while set, nobody reads the plugin's stdout
    pub pause_out: Arc<std::sync::atomic::AtomicBool>,
    pub rng: Rng,
    pub started: Instant,
    /// crash injection: SIGKILL the plugin right after applying the effect of the k-th
    /// non-getinfo RPC of this session, before replying
    pub kill_at_rpc: Option<usize>,
    /// the connection carrying the k-th RPC dies after lightningd executed the command (no reply)
    pub drop_at_rpc: Option<usize>,
    /// the first pay command is answered with this JSON-RPC error (nothing is sent)
    pub pay_error_once: Option<i64>,
    pub dropped: bool,
    pub rpc_count: usize,
    pub killed: bool,
    /// scripted pay for the crash sessions: (status to answer, part ends complete?)
    pub pay_script: Option<(&'static str, bool)>,
    /// invariant violations observed by the node on its own state (signature, detail)
    pub node_violations: Vec<(String, String)>,
    /// called after every node-side effect with (node, event) to evaluate invariants
    pub hashes: Vec<String>,
    /// C14: payments for these hashes get stuck: (hash hex, "pay" | "waitsendpay")
    pub stuck: Vec<(String, &'static str)>,
    pub ping_seq: u64,
    /// pay commands kept running on purpose: (connection, rpc id, pay id, hash)
    pub slow_pays: Vec<(UnixStream, Value, u64, String)>,
}

#[derive(Clone, Copy, Debug, PartialEq)]
pub enum Wait {
    Done,
    /// the plugin answered a later plain forward but not this; or it answered nothing although
    /// every thread of its process sleeps without consuming CPU (deadlock)
    Hung,
    /// nothing was answered in time: load, not a verdict
    TooSlow,
    Died,
}

static SESSION_COUNTER: std::sync::atomic::AtomicU64 = std::sync::atomic::AtomicU64::new(0);

fn write_rpc(mut s: UnixStream, id: &Value, res: Result<Value, RpcErr>) {
    let doc = match res {
        Ok(v) => json!({"jsonrpc": "2.0", "id": id, "result": v}),
        Err(e) => json!({"jsonrpc": "2.0", "id": id, "error": {"code": e.code.unwrap_or(-1), "message": e.message}}),
    };
    let _ = s.write_all(format!("{}\n\n", doc).as_bytes());
    let _ = s.flush();
}

impl Session {
    /// Spawn the plugin and perform getmanifest + init. Ok(Some(session)) = init acknowledged;
    /// Ok(None) = the process exited without acknowledging init (refused to start).
    pub fn start(bin: &str, options: &Value, trace_log: bool, height: u32, valgrind: Option<&str>) -> Result<(Option<Session>, StartInfo), String> {
        let n = SESSION_COUNTER.fetch_add(1, std::sync::atomic::Ordering::Relaxed);
        let dir = format!("{}/e/{}-{}", crate::checks::out_dir(), std::process::id(), n);
        let _ = std::fs::remove_dir_all(&dir);
        std::fs::create_dir_all(&dir).map_err(|e| e.to_string())?;
        let sock = format!("{dir}/rpc");
        let listener = UnixListener::bind(&sock).map_err(|e| format!("bind: {e}"))?;
        let (tx, rx) = channel::<Ev>();
        let txa = tx.clone();
        std::thread::spawn(move || {
            for conn in listener.incoming() {
                let mut c = match conn {
                    Ok(c) => c,
                    Err(_) => break,
                };
                let txc = txa.clone();
                std::thread::spawn(move || {
                    // like lightningd, serve any number of requests on one connection
                    let _ = c.set_read_timeout(Some(Duration::from_secs(600)));
                    let mut buf: Vec<u8> = vec![];
                    let mut tmp = [0u8; 4096];
                    loop {
                        while let Some(p) = buf.windows(2).position(|w| w == b"\n\n") {
                            let doc: Vec<u8> = buf.drain(..p + 2).collect();
                            if let Ok(v) = serde_json::from_slice::<Value>(&doc[..doc.len() - 2]) {
                                match c.try_clone() {
                                    Ok(w) => {
                                        if txc.send(Ev::Rpc(v, w)).is_err() {
                                            return;
                                        }
                                    }
                                    Err(_) => return,
                                }
                            }
                        }
                        match c.read(&mut tmp) {
                            Ok(0) | Err(_) => return,
                            Ok(k) => buf.extend_from_slice(&tmp[..k]),
                        }
                    }
                });
            }
        });
        let mut cmd = match valgrind {
            Some(logf) => {
                let mut c = Command::new("valgrind");
                c.args(["--error-exitcode=0", "--quiet", &format!("--log-file={logf}"), bin]);
                c
            }
            None => Command::new(bin),
        };
        cmd.current_dir(&dir).stdin(Stdio::piped()).stdout(Stdio::piped()).stderr(Stdio::piped()).env("RUST_BACKTRACE", "0").env("ASAN_OPTIONS", "detect_leaks=0:abort_on_error=1:symbolize=0").env_remove("RUST_LOG");
        if trace_log {
            cmd.env("CLN_PLUGIN_LOG", "trace");
        } else {
            cmd.env("CLN_PLUGIN_LOG", "info");
        }
        let mut child = cmd.spawn().map_err(|e| format!("spawn: {e}"))?;
        let mut stdout = child.stdout.take().unwrap();
        let txo = tx.clone();
        let pause_out = Arc::new(std::sync::atomic::AtomicBool::new(false));
        let pause_flag = pause_out.clone();
        std::thread::spawn(move || {
            let mut tmp = [0u8; 65536];
            loop {
                // lightningd busy elsewhere: it does not read the plugin's stdout for a while
                while pause_flag.load(std::sync::atomic::Ordering::Relaxed) {
                    std::thread::sleep(Duration::from_millis(3));
                }
                match stdout.read(&mut tmp) {
                    Ok(0) | Err(_) => {
                        let _ = txo.send(Ev::OutEof);
                        return;
                    }
                    Ok(k) => {
                        if txo.send(Ev::Out(tmp[..k].to_vec())).is_err() {
                            return;
                        }
                    }
                }
            }
        });
        let stderr_buf = Arc::new(Mutex::new(String::new()));
        let mut stderr = child.stderr.take().unwrap();
        let sb = stderr_buf.clone();
        std::thread::spawn(move || {
            let mut tmp = [0u8; 8192];
            loop {
                match stderr.read(&mut tmp) {
                    Ok(0) | Err(_) => return,
                    Ok(k) => {
                        let mut s = sb.lock().unwrap();
                        if s.len() < 200_000 {
                            s.push_str(&String::from_utf8_lossy(&tmp[..k]));
                        }
                    }
                }
            }
        });
        let stdin = child.stdin.take().map(|mut w| {
            let (tx, rx) = std::sync::mpsc::channel::<Vec<(Vec<u8>, bool)>>();
            std::thread::spawn(move || {
                for chunks in rx {
                    for (c, pause) in chunks {
                        if w.write_all(&c).is_err() {
                            return;
                        }
                        let _ = w.flush();
                        if pause {
                            std::thread::sleep(Duration::from_micros(200));
                        }
                    }
                }
            });
            tx
        });
        let mut s = Session {
            child,
            stdin,
            events: rx,
            node: {
                // lightningd numbers the single part of an unsplit pay 0 and the parts of a split one
                // from 1; two sessions in three use the former
                static SESSIONS: std::sync::atomic::AtomicU64 = std::sync::atomic::AtomicU64::new(0);
                let mut n = Node::new(height, NODE_ID);
                n.first_partid_zero = SESSIONS.fetch_add(1, std::sync::atomic::Ordering::Relaxed) % 3 != 2;
                n
            },
            dir: dir.clone(),
            out_buf: vec![],
            docs: vec![],
            bad_docs: vec![],
            stderr: stderr_buf,
            out_eof: false,
            pay_policy: PayPolicy::Complete,
            preimages: BTreeMap::new(),
            pays_seen: vec![],
            rpc_log: vec![],
            held: vec![],
            late: vec![],
            first_wait: None,
            pause_out,
            rng: Rng::new(n + 1),
            started: Instant::now(),
            kill_at_rpc: None,
            drop_at_rpc: None,
            pay_error_once: None,
            dropped: false,
            rpc_count: 0,
            killed: false,
            pay_script: None,
            node_violations: vec![],
            hashes: vec![],
            stuck: vec![],
            ping_seq: 0,
            slow_pays: vec![],
        };
        let slow = if valgrind.is_some() { 20 } else { 1 };
        s.send_doc(&json!({"jsonrpc": "2.0", "id": "gm", "method": "getmanifest", "params": {"allow-deprecated-apis": false}}), 0);
        if !s.pump_until(|s| s.reply("gm").is_some() || s.out_eof, Duration::from_secs(15 * slow)) {
            let st = s.finish();
            return Err(format!("no getmanifest reply; stderr: {}", st.stderr.chars().take(400).collect::<String>()));
        }
        let manifest = s.reply("gm").cloned().unwrap_or(Value::Null);
        s.send_doc(
            &json!({"jsonrpc": "2.0", "id": "init", "method": "init", "params": {"options": options, "configuration": {"lightning-dir": dir, "rpc-file": "rpc", "startup": true, "network": "regtest", "feature_set": {"init": "", "node": "", "channel": "", "invoice": ""}}}}),
            0,
        );
        // cln-rpc resolves the rpc file relative to the cwd of lightningd = lightning-dir; we pass an absolute socket below if needed
        let acked = s.pump_until(|s| s.reply("init").is_some() || s.out_eof, Duration::from_secs(20 * slow));
        let init_ok = s.reply("init").is_some();
        let info = StartInfo { manifest, acked: init_ok, exit_code: None, stderr: String::new(), startup_getinfo: s.rpc_log.iter().filter(|m| m.as_str() == "getinfo").count() };
        if !acked || !init_ok {
            let st = s.finish();
            return Ok((None, StartInfo { exit_code: st.exit_code, stderr: st.stderr, ..info }));
        }
        Ok((Some(s), info))
    }

    pub fn reply(&self, id: &str) -> Option<&Value> {
        self.docs.iter().map(|d| &d.1).find(|d| d.get("id").and_then(|i| i.as_str()) == Some(id))
    }
    pub fn reply_at(&self, id: &str) -> Option<(Instant, &Value)> {
        self.docs.iter().find(|d| d.1.get("id").and_then(|i| i.as_str()) == Some(id)).map(|d| (d.0, &d.1))
    }
    pub fn replies(&self, id: &str) -> usize {
        self.docs.iter().filter(|d| d.1.get("id").and_then(|i| i.as_str()) == Some(id)).count()
    }

    /// chunking: 0 = one write; n>0 = random chunks up to n bytes
    pub fn send_doc(&mut self, doc: &Value, chunking: u64) {
        let bytes = format!("{}\n\n", doc).into_bytes();
        self.send_raw(&bytes, chunking);
    }

    pub fn send_raw(&mut self, bytes: &[u8], chunking: u64) {
        let mut chunks: Vec<(Vec<u8>, bool)> = vec![];
        if chunking == 0 {
            chunks.push((bytes.to_vec(), false));
        } else {
            let mut i = 0;
            while i < bytes.len() {
                let k = (1 + self.rng.below(chunking)) as usize;
                let j = (i + k).min(bytes.len());
                chunks.push((bytes[i..j].to_vec(), self.rng.chance(1, 4)));
                i = j;
            }
        }
        if let Some(tx) = self.stdin.as_ref() {
            let _ = tx.send(chunks);
        }
    }

    fn on_out(&mut self, b: Vec<u8>) {
        self.out_buf.extend_from_slice(&b);
        loop {
            let pos = self.out_buf.windows(2).position(|w| w == b"\n\n");
            match pos {
                None => break,
                Some(p) => {
                    let doc: Vec<u8> = self.out_buf.drain(..p + 2).collect();
                    let body = &doc[..doc.len() - 2];
                    match serde_json::from_slice::<Value>(body) {
                        Ok(v) => self.docs.push((Instant::now(), v)),
                        Err(e) => self.bad_docs.push(format!("{e}: {:?}", String::from_utf8_lossy(body).chars().take(160).collect::<String>())),
                    }
                }
            }
        }
    }

    fn on_rpc(&mut self, req: Value, stream: UnixStream) {
        let method = req.get("method").and_then(|m| m.as_str()).unwrap_or("").to_string();
        let params = req.get("params").cloned().unwrap_or(json!({}));
        let id = req.get("id").cloned().unwrap_or(Value::Null);
        self.rpc_log.push(method.clone());
        if self.killed {
            return;
        }
        if method != "getinfo" {
            let k = self.rpc_count;
            self.rpc_count += 1;
            if method == "pay" {
                self.check_pay_arrival(&params);
            }
            if self.kill_at_rpc == Some(k) {
                // apply the effect, then crash the plugin before it can see the reply
                match method.as_str() {
                    "datastore" => {
                        let _ = self.node.datastore(&params);
                    }
                    "pay" => {
                        self.pays_seen.push(params.clone());
                        let hash_hex = invoice_hash_hex(&params);
                        let pid = self.node.start_pay(0, &params, &hash_hex);
                        self.node.add_part(pid, 1000);
                    }
                    _ => {}
                }
                let _ = self.child.kill();
                let _ = self.child.wait();
                self.killed = true;
                self.node.crash();
                self.check_state("after-kill");
                return;
            }
        }
        if method != "getinfo" && self.drop_at_rpc.is_some() && self.drop_at_rpc == Some(self.rpc_count.wrapping_sub(1)) && !self.dropped {
            self.dropped = true;
            match method.as_str() {
                "datastore" => {
                    let _ = self.node.datastore(&params);
                    self.check_state("datastore(reply lost)");
                }
                "pay" => {
                    // handled below like a "pay-drop" payment: command accepted, connection gone
                    self.stuck.push((invoice_hash_hex(&params), "pay-drop"));
                }
                _ => {}
            }
            if method != "pay" {
                let _ = stream.shutdown(std::net::Shutdown::Both);
                return;
            }
        }
        if method == "pay" {
            if let Some(code) = self.pay_error_once.take() {
                self.pays_seen.push(params.clone());
                write_rpc(stream, &id, Err(RpcErr::new(code as i32, "injected: pay refused")));
                return;
            }
        }
        if method == "pay" {
            let hx = invoice_hash_hex(&params);
            if let Some((_, at)) = self.stuck.iter().find(|(h, _)| *h == hx).cloned() {
                self.pays_seen.push(params.clone());
                let pid = self.node.start_pay(0, &params, &hx);
                self.node.add_part(pid, 1000);
                if at == "two-parts" {
                    self.node.add_part(pid, 1000);
                }
                if at == "pay" {
                    // the pay command never returns
                    self.held.push(stream);
                } else if at == "pay-slow" {
                    // the pay command keeps running (no part yet) and is answered later by the test
                    self.node.parts.pop();
                    self.slow_pays.push((stream, id.clone(), pid, hx.clone()));
                } else if at == "pay-drop-complete" {
                    // the connection dies after lightningd accepted the command, and the part has
                    // already settled when the plugin starts asking
                    let pre = self.preimages.get(&hx).copied();
                    if let (Some(p), Some(pre)) = (self.node.parts.last_mut(), pre) {
                        p.status = PartStatus::Complete;
                        p.preimage = Some(pre);
                    }
                    self.node.pays.iter_mut().filter(|p| p.id == pid).for_each(|p| p.running = false);
                    let _ = stream.shutdown(std::net::Shutdown::Both);
                } else if at == "pay-drop" || at == "pay-drop-wait-drop" {
                    // the connection dies after lightningd accepted the command; the command has
                    // ended, its part stays pending (it resolves when the plugin waits on it)
                    self.node.pays.iter_mut().filter(|p| p.id == pid).for_each(|p| p.running = false);
                    let _ = stream.shutdown(std::net::Shutdown::Both);
                } else {
                    // pay returns pending with its part still pending; the part never resolves
                    let pay = self.node.pays.iter().find(|p| p.id == pid).unwrap().clone();
                    self.node.pays.iter_mut().filter(|p| p.id == pid).for_each(|p| p.running = false);
                    write_rpc(stream, &id, Ok(self.node.pay_response(&pay, "pending", false, None)));
                }
                return;
            }
        }
        if method == "pay" && self.pay_script.is_some() {
            let (status, completes) = self.pay_script.unwrap();
            self.pays_seen.push(params.clone());
            let hash_hex = invoice_hash_hex(&params);
            let pid = self.node.start_pay(0, &params, &hash_hex);
            self.node.add_part(pid, 1000);
            self.check_state("part-created");
            let pre = self.preimages.get(&hash_hex).copied();
            if status != "pending" {
                if let Some(p) = self.node.parts.last_mut() {
                    if completes && pre.is_some() {
                        p.status = PartStatus::Complete;
                        p.preimage = pre;
                    } else {
                        p.status = PartStatus::Failed;
                        p.fail_code = Some(203);
                    }
                }
            }
            let pay = self.node.pays.iter().find(|p| p.id == pid).unwrap().clone();
            self.node.pays.iter_mut().for_each(|p| p.running = false);
            let done = status == "complete" && completes && pre.is_some();
            let r = self.node.pay_response(&pay, if done { "complete" } else if status == "complete" { "failed" } else { status }, false, if done { pre } else { None });
            write_rpc(stream, &id, Ok(r));
            self.check_state("pay-returned");
            return;
        }
        match method.as_str() {
            "getinfo" => write_rpc(stream, &id, self.node.getinfo()),
            "datastore" => {
                let r = self.node.datastore(&params);
                self.check_state("datastore");
                write_rpc(stream, &id, r)
            }
            "deldatastore" => {
                let r = self.node.deldatastore(&params);
                self.check_state("deldatastore");
                write_rpc(stream, &id, r)
            }
            "listdatastore" => write_rpc(stream, &id, self.node.listdatastore(&params)),
            "listsendpays" => write_rpc(stream, &id, self.node.listsendpays(&params)),
            "waitsendpay" => match self.node.find_part(&params) {
                None => write_rpc(stream, &id, Err(RpcErr::new(208, "never attempted"))),
                Some(k) => {
                    if self.node.waitsendpay_result(k).is_none() && self.stuck.iter().any(|(h, at)| *h == self.node.parts[k].hash_hex && *at == "two-parts") {
                        // the first part of the hash settles at once; the other one is answered
                        // late, when the test says so (answer_late)
                        let hx = self.node.parts[k].hash_hex.clone();
                        let first = self.node.parts.iter().position(|p| p.hash_hex == hx) == Some(k);
                        if first {
                            if self.late.iter().all(|(_, _, k2)| self.node.parts[*k2].hash_hex != hx) {
                                // wait for the other part's waitsendpay to be on the wire first
                                self.first_wait = Some((stream, id.clone(), k));
                                return;
                            }
                            if let Some(pre) = self.preimages.get(&hx).copied() {
                                self.node.parts[k].status = PartStatus::Complete;
                                self.node.parts[k].preimage = Some(pre);
                            }
                        } else {
                            self.late.push((stream, id.clone(), k));
                            if let Some((st1, id1, k1)) = self.first_wait.take() {
                                if let Some(pre) = self.preimages.get(&hx).copied() {
                                    self.node.parts[k1].status = PartStatus::Complete;
                                    self.node.parts[k1].preimage = Some(pre);
                                }
                                if let Some(r) = self.node.waitsendpay_result(k1) {
                                    write_rpc(st1, &id1, r);
                                }
                            }
                            return;
                        }
                    }
                    if self.node.waitsendpay_result(k).is_none() && self.stuck.iter().any(|(h, at)| *h == self.node.parts[k].hash_hex && *at == "pay-drop-wait-drop") {
                        // the part settles, but the connection carrying this waitsendpay dies too:
                        // the plugin learns the outcome only by asking again
                        let hx = self.node.parts[k].hash_hex.clone();
                        if let Some(pre) = self.preimages.get(&hx).copied() {
                            self.node.parts[k].status = PartStatus::Complete;
                            self.node.parts[k].preimage = Some(pre);
                        }
                        for e in self.stuck.iter_mut().filter(|(h, _)| *h == hx) {
                            e.1 = "pay-drop";
                        }
                        let _ = stream.shutdown(std::net::Shutdown::Both);
                        return;
                    }
                    if self.node.waitsendpay_result(k).is_none() && self.stuck.iter().any(|(h, at)| *h == self.node.parts[k].hash_hex && *at == "pay-drop") {
                        let hx = self.node.parts[k].hash_hex.clone();
                        if let Some(pre) = self.preimages.get(&hx).copied() {
                            self.node.parts[k].status = PartStatus::Complete;
                            self.node.parts[k].preimage = Some(pre);
                        }
                    }
                    if self.node.waitsendpay_result(k).is_none() {
                        if let Some((_, completes)) = self.pay_script {
                            // leftover pending part: it resolves while the plugin waits on it
                            let hx = self.node.parts[k].hash_hex.clone();
                            let pre = self.preimages.get(&hx).copied();
                            if completes && pre.is_some() {
                                self.node.parts[k].status = PartStatus::Complete;
                                self.node.parts[k].preimage = pre;
                            } else {
                                self.node.parts[k].status = PartStatus::Failed;
                                self.node.parts[k].fail_code = Some(203);
                            }
                            self.check_state("part-resolved");
                        }
                    }
                    match self.node.waitsendpay_result(k) {
                        Some(r) => write_rpc(stream, &id, r),
                        None => self.held.push(stream),
                    }
                }
            },
            "pay" => {
                self.pays_seen.push(params.clone());
                let hash_hex = params.get("bolt11").and_then(|b| b.as_str()).and_then(|b| b.parse::<lightning_invoice::Bolt11Invoice>().ok()).map(|i| hex::encode(AsRef::<[u8]>::as_ref(i.payment_hash()))).unwrap_or_default();
                match self.pay_policy {
                    PayPolicy::Hold => self.held.push(stream),
                    PayPolicy::Fail => {
                        let pid = self.node.start_pay(0, &params, &hash_hex);
                        let pay = self.node.pays.iter().find(|p| p.id == pid).unwrap().clone();
                        self.node.pays.iter_mut().for_each(|p| p.running = false);
                        write_rpc(stream, &id, Ok(self.node.pay_response(&pay, "failed", false, None)));
                    }
                    PayPolicy::Complete => {
                        let pid = self.node.start_pay(0, &params, &hash_hex);
                        let pre = self.preimages.get(&hash_hex).copied();
                        self.node.add_part(pid, 1000);
                        if let Some(p) = self.node.parts.last_mut() {
                            if let Some(pre) = pre {
                                p.status = PartStatus::Complete;
                                p.preimage = Some(pre);
                            } else {
                                p.status = PartStatus::Failed;
                                p.fail_code = Some(203);
                            }
                        }
                        let pay = self.node.pays.iter().find(|p| p.id == pid).unwrap().clone();
                        self.node.pays.iter_mut().for_each(|p| p.running = false);
                        let r = match pre {
                            Some(p) => self.node.pay_response(&pay, "complete", false, Some(p)),
                            None => self.node.pay_response(&pay, "failed", false, None),
                        };
                        write_rpc(stream, &id, Ok(r));
                    }
                }
            }
            _ => write_rpc(stream, &id, Err(RpcErr::new(-32601, "Unknown command"))),
        }
    }

    /// lightningd answers the waitsendpay calls it kept waiting: their parts complete now.
    pub fn answer_late(&mut self) -> usize {
        let late = std::mem::take(&mut self.late);
        let n = late.len();
        for (stream, id, k) in late {
            let hx = self.node.parts[k].hash_hex.clone();
            if let Some(pre) = self.preimages.get(&hx).copied() {
                self.node.parts[k].status = PartStatus::Complete;
                self.node.parts[k].preimage = Some(pre);
            }
            if let Some(r) = self.node.waitsendpay_result(k) {
                write_rpc(stream, &id, r);
            }
        }
        n
    }

    /// Process events until `done` holds or the timeout expires. Returns whether `done` holds.
    pub fn pump_until(&mut self, done: impl Fn(&Session) -> bool, timeout: Duration) -> bool {
        let deadline = Instant::now() + timeout;
        loop {
            if done(self) {
                return true;
            }
            let now = Instant::now();
            if now >= deadline {
                return false;
            }
            match self.events.recv_timeout((deadline - now).min(Duration::from_millis(50))) {
                Ok(Ev::Out(b)) => self.on_out(b),
                Ok(Ev::OutEof) => {
                    self.out_eof = true;
                    if done(self) {
                        return true;
                    }
                    // nothing more can come from stdout; keep serving RPCs briefly
                    if Instant::now() + Duration::from_millis(100) < deadline {
                        return done(self);
                    }
                }
                Ok(Ev::Rpc(req, stream)) => self.on_rpc(req, stream),
                Err(RecvTimeoutError::Timeout) => {}
                Err(RecvTimeoutError::Disconnected) => return done(self),
            }
        }
    }

    /// Wait for `done`; on timeout find out whether the plugin hangs on this or the machine is
    /// just slow: a plain forward ("ping") is sent, and only if that is answered while `done`
    /// still does not hold is the outcome `Hung`. Wall clock alone never yields a verdict.
    pub fn wait_or_ping(&mut self, done: impl Fn(&Session) -> bool + Copy, timeout: Duration) -> Wait {
        if self.pump_until(move |s| done(s) || s.out_eof, timeout) && done(self) {
            return Wait::Done;
        }
        if self.out_eof {
            return if done(self) { Wait::Done } else { Wait::Died };
        }
        self.ping_seq += 1;
        let pid = format!("ping{}", self.ping_seq);
        self.send_doc(&json!({"jsonrpc": "2.0", "id": pid, "method": "htlc_accepted", "params": forward_request(900_000 + self.ping_seq, "00")}), 0);
        let pid2 = pid.clone();
        self.pump_until(move |s| done(s) || s.reply(&pid2).is_some() || s.out_eof, Duration::from_secs(40));
        if done(self) {
            return Wait::Done;
        }
        if self.out_eof {
            return Wait::Died;
        }
        if self.reply(&pid).is_some() {
            // responsive: give the awaited thing a last moment
            self.pump_until(move |s| done(s) || s.out_eof, Duration::from_secs(2));
            if done(self) {
                Wait::Done
            } else {
                Wait::Hung
            }
        } else if self.asleep() {
            // not even a plain forward is answered, and the process is not starved: it sleeps
            Wait::Hung
        } else {
            Wait::TooSlow
        }
    }

    /// True iff every thread of the plugin process is sleeping (not runnable, not in disk wait)
    /// and the process consumed no CPU time across two samples 1.2 s apart. A process in that
    /// state is not being starved by load: it is waiting for something. Together with an
    /// unanswered plain forward (which depends on nothing) that is a deadlock, not slowness.
    pub fn asleep(&mut self) -> bool {
        let pid = self.child.id();
        let sample = || -> Option<(bool, u64)> {
            let mut all_sleeping = true;
            let mut ticks = 0u64;
            let mut n = 0;
            for e in std::fs::read_dir(format!("/proc/{pid}/task")).ok()? {
                let e = e.ok()?;
                let st = std::fs::read_to_string(e.path().join("stat")).ok()?;
                let rest = &st[st.rfind(')')? + 1..];
                let f: Vec<&str> = rest.split_whitespace().collect();
                // after the comm field: state is f[0], utime f[11], stime f[12]
                if f.len() < 13 {
                    return None;
                }
                if f[0] != "S" {
                    all_sleeping = false;
                }
                ticks += f[11].parse::<u64>().ok()? + f[12].parse::<u64>().ok()?;
                n += 1;
            }
            if n == 0 {
                None
            } else {
                Some((all_sleeping, ticks))
            }
        };
        let a = sample();
        self.pump_for(Duration::from_millis(1200));
        let b = sample();
        match (a, b) {
            (Some((true, t1)), Some((true, t2))) => t1 == t2,
            _ => false,
        }
    }

    pub fn pump_for(&mut self, d: Duration) {
        self.pump_until(|_| false, d);
    }

    pub fn alive(&mut self) -> bool {
        matches!(self.child.try_wait(), Ok(None))
    }

    /// Kill (SIGKILL) and collect.
    pub fn finish(mut self) -> Finished {
        // give a dying process a moment to report its exit status
        let mut code = None;
        for _ in 0..20 {
            match self.child.try_wait() {
                Ok(Some(st)) => {
                    code = Some(st.code().unwrap_or(-1));
                    break;
                }
                _ => {
                    if !self.out_eof {
                        break;
                    }
                    std::thread::sleep(Duration::from_millis(10));
                }
            }
        }
        if code.is_none() {
            let _ = self.child.kill();
            let _ = self.child.wait();
        }
        self.stdin = None;
        std::thread::sleep(Duration::from_millis(2));
        let stderr = self.stderr.lock().unwrap().clone();
        let _ = std::fs::remove_dir_all(&self.dir);
        Finished { exit_code: code, stderr, docs: self.docs.iter().map(|d| d.1.clone()).collect(), bad_docs: self.bad_docs.clone(), trailing: self.out_buf.clone() }
    }
}

pub fn invoice_hash_hex(params: &Value) -> String {
    params.get("bolt11").and_then(|b| b.as_str()).and_then(|b| b.parse::<lightning_invoice::Bolt11Invoice>().ok()).map(|i| hex::encode(AsRef::<[u8]>::as_ref(i.payment_hash()))).unwrap_or_default()
}

/// What the durable record for `hash_hex` says, read through the plugin's own store.
pub fn rec_of(node: &Node, hash_hex: &str) -> String {
    use crate::store::{ClnDatastore, Datastore, PaymentState};
    use futures::FutureExt;
    let mut snap = Node::default();
    for (k, v) in node.ds.iter() {
        if k.iter().any(|s| s == hash_hex) {
            snap.ds.insert(k.clone(), v.clone());
        }
    }
    // any invoice with this hash will do: the store only uses the payment hash
    let mut h = [0u8; 32];
    if let Ok(b) = hex::decode(hash_hex) {
        if b.len() == 32 {
            h.copy_from_slice(&b);
        }
    }
    let mut rng = Rng::new(7);
    let inv = crate::gen::make_invoice(&crate::gen::InvoiceSpec { payment_hash: h, amount_msat: Some(1000), signer: crate::gen::Signer::Payee, hints: crate::gen::Hints::None, payee_sk: crate::gen::secret_key(&mut rng), other_sk: crate::gen::secret_key(&mut rng), local_pubkey: NODE_ID.parse().unwrap(), salt: 1 });
    let invoice: lightning_invoice::Bolt11Invoice = inv.bolt11.parse().unwrap();
    let tramp = crate::messages::TrampolineInfo { bolt11: inv.bolt11.clone(), payee: invoice.get_payee_pub_key(), invoice, amount_msat: 1000, routing_policy: crate::messages::TrampolineRoutingPolicy { fee_base_msat: 0, fee_proportional_millionths: 0, cltv_expiry_delta: 10 } };
    let rpc = Arc::new(crate::rpc::Rpc::with_transport(Arc::new(crate::world::SnapTransport { node: snap })));
    match ClnDatastore::new(rpc).fetch_payment_info(&tramp).now_or_never() {
        Some(Ok(PaymentState::Free)) => "Free".into(),
        Some(Ok(PaymentState::Pending { .. })) => "Pending".into(),
        Some(Ok(PaymentState::Succeeded { preimage })) => {
            if crate::gen::sha256_of(&preimage) == h {
                "Succeeded".into()
            } else {
                "Succeeded(wrong-preimage)".into()
            }
        }
        Some(Err(e)) => format!("ReadErr({e})"),
        None => "ReadErr(async)".into(),
    }
}

impl Session {
    /// finish a pay command that was kept running: one part, complete, answer `complete`
    pub fn finish_slow_pays(&mut self) {
        for (stream, id, pid, hx) in std::mem::take(&mut self.slow_pays) {
            let pre = self.preimages.get(&hx).copied();
            self.node.add_part(pid, 1000);
            if let (Some(p), Some(pre)) = (self.node.parts.last_mut(), pre) {
                p.status = PartStatus::Complete;
                p.preimage = Some(pre);
            }
            let pay = self.node.pays.iter().find(|p| p.id == pid).unwrap().clone();
            self.node.pays.iter_mut().filter(|p| p.id == pid).for_each(|p| p.running = false);
            write_rpc(stream, &id, Ok(self.node.pay_response(&pay, "complete", false, pre)));
        }
    }

    /// R08a/R08b on the node's own state (exact: the node is single-threaded)
    pub fn check_state(&mut self, at: &str) {
        for hx in self.hashes.clone() {
            let (p, c, _) = self.node.live_parts(&hx);
            let run = self.node.pay_running(&hx);
            let rec = rec_of(&self.node, &hx);
            if (p > 0 || c > 0 || run) && rec != "Pending" && rec != "Succeeded" {
                self.node_violations.push((format!("R08a|e2e|rec={rec}|pending={}|complete={}|payrun={}", (p > 0) as u8, (c > 0) as u8, run as u8), format!("{at}: record for {hx} reads {rec} while pending={p} complete={c} pay_running={run}")));
            }
            if rec == "Succeeded(wrong-preimage)" {
                self.node_violations.push(("R08b|e2e|succeeded-with-wrong-preimage".into(), format!("{at}: {hx}")));
            }
        }
    }
    /// R05 / R08c at pay arrival
    pub fn check_pay_arrival(&mut self, params: &Value) {
        let hx = invoice_hash_hex(params);
        let (p, c, _) = self.node.live_parts(&hx);
        if p > 0 || c > 0 || self.node.pay_running(&hx) {
            self.node_violations.push((format!("R05|e2e|pay-while|pending={}|complete={}", (p > 0) as u8, (c > 0) as u8), format!("pay for {hx} arrived while pending={p} complete={c}")));
        }
        let rec = rec_of(&self.node, &hx);
        if rec != "Pending" {
            self.node_violations.push((format!("R08c|e2e|pay-with-rec={rec}"), format!("pay for {hx} arrived while the record reads {rec}")));
        }
    }
}

pub struct StartInfo {
    pub manifest: Value,
    pub acked: bool,
    pub exit_code: Option<i32>,
    pub stderr: String,
    pub startup_getinfo: usize,
}

pub struct Finished {
    pub exit_code: Option<i32>,
    pub stderr: String,
    pub docs: Vec<Value>,
    pub bad_docs: Vec<String>,
    pub trailing: Vec<u8>,
}

pub struct E2eResult {
    pub coverage: Value,
    pub violations: BTreeMap<String, (u64, String)>,
    pub evals: BTreeMap<String, u64>,
    pub inconclusive: Vec<String>,
}

pub fn default_options() -> Value {
    json!({})
}

/// A plain forward request (continue at once).
pub fn forward_request(i: u64, pad: &str) -> Value {
    json!({
        "onion": {"payload": "", "short_channel_id": "1x2x3", "forward_msat": 1000 + i, "outgoing_cltv_value": 500, "type": "tlv", "next_onion": pad, "shared_secret": "00"},
        "htlc": {"short_channel_id": "5x5x5", "id": i, "amount_msat": 1001 + i, "cltv_expiry": 600, "cltv_expiry_relative": 100, "payment_hash": "00".repeat(32)},
    })
}

/// C17 E2E: concurrent hook calls with trace logging on, stdin written in random chunks.
pub fn wire_sessions(bin: &str, seed: u64, sessions: u64) -> Result<E2eResult, String> {
    let mut viol: BTreeMap<String, (u64, String)> = BTreeMap::new();
    let mut evals: BTreeMap<String, u64> = BTreeMap::new();
    let mut inconclusive = vec![];
    let total_calls = Mutex::new(0u64);
    let total_logs = Mutex::new(0u64);
    let viol_m = Mutex::new(&mut viol);
    let evals_m = Mutex::new(&mut evals);
    let inc_m = Mutex::new(&mut inconclusive);
    let next = std::sync::atomic::AtomicU64::new(0);
    std::thread::scope(|sc| {
        for _ in 0..crate::checks::threads().min(8) {
            sc.spawn(|| loop {
                let i = next.fetch_add(1, std::sync::atomic::Ordering::Relaxed);
                if i >= sessions {
                    break;
                }
                let mut rng = Rng::new(crate::prng::mix(seed, i));
                let (s, _info) = match Session::start(bin, &default_options(), true, 100, None) {
                    Ok((Some(s), info)) => (s, info),
                    Ok((None, info)) => {
                        inc_m.lock().unwrap().push(format!("plugin did not start with default options: {}", info.stderr.chars().take(200).collect::<String>()));
                        continue;
                    }
                    Err(e) => {
                        inc_m.lock().unwrap().push(e);
                        continue;
                    }
                };
                let mut s = s;
                let n = 1 + rng.below(48);
                let chunking = *rng.pick(&[0u64, 1, 3, 17, 200, 5000]);
                let bad_notifs = i % 3 == 0;
                // build all requests into one byte stream so several can share a write
                let mut bytes = vec![];
                let mut ids = vec![];
                for k in 0..n {
                    let id = format!("w{k}-é");
                    let pad = if rng.chance(1, 3) { "漢字😀".repeat(rng.below(30) as usize) } else { "00".into() };
                    let doc = if rng.chance(1, 6) {
                        if bad_notifs && rng.chance(1, 2) {
                            // a notification its handler cannot deserialize (the shape older nodes
                            // send): the handler fails, no request may suffer
                            json!({"jsonrpc": "2.0", "method": "block_added", "params": {"block": {"hash": "00", "height": 100 + k}}})
                        } else {
                            json!({"jsonrpc": "2.0", "method": "block_added", "params": {"block_added": {"hash": "00", "height": 100 + k}}})
                        }
                    } else {
                        ids.push(id.clone());
                        json!({"jsonrpc": "2.0", "id": id, "method": "htlc_accepted", "params": forward_request(k, &pad)})
                    };
                    bytes.extend_from_slice(format!("{}\n\n", doc).as_bytes());
                }
                // one session in four: lightningd does not read the plugin's stdout while the
                // requests arrive (trace logging on: the output pipe fills up), then reads again
                let stall = i % 4 == 1;
                if stall {
                    s.pause_out.store(true, std::sync::atomic::Ordering::Relaxed);
                    let mut more = vec![];
                    for k in 0..700u64 {
                        let id = format!("s{k}");
                        ids.push(id.clone());
                        more.extend_from_slice(format!("{}\n\n", json!({"jsonrpc": "2.0", "id": id, "method": "htlc_accepted", "params": forward_request(5000 + k, "00")})).as_bytes());
                    }
                    bytes.extend_from_slice(&more);
                }
                s.send_raw(&bytes, chunking);
                if stall {
                    s.pump_for(Duration::from_millis(600));
                    s.pause_out.store(false, std::sync::atomic::Ordering::Relaxed);
                }
                let idc = ids.clone();
                let idc_ref = &idc;
                let wres = s.wait_or_ping(|s| idc_ref.iter().all(|id| s.reply(id).is_some()), Duration::from_secs(20));
                let ok = wres == Wait::Done;
                if wres == Wait::TooSlow {
                    inc_m.lock().unwrap().push("wire session too slow to judge".into());
                    s.finish();
                    continue;
                }
                s.pump_for(Duration::from_millis(30));
                *evals_m.lock().unwrap().entry("R17b-e2e".to_string()).or_insert(0) += ids.len() as u64;
                *evals_m.lock().unwrap().entry("R17c-e2e".to_string()).or_insert(0) += s.docs.len() as u64;
                let mut v = |sig: &str, w: String| {
                    let mut g = viol_m.lock().unwrap();
                    let e = g.entry(sig.to_string()).or_insert((0, w));
                    e.0 += 1;
                };
                if !ok {
                    let missing: Vec<&String> = ids.iter().filter(|id| s.reply(id).is_none()).collect();
                    if s.out_eof {
                        v("R17b|e2e-process-died", format!("plugin exited with calls {missing:?} unanswered (chunking {chunking})"));
                    } else {
                        v("R17b|e2e-missing-reply", format!("no reply for {missing:?} although a later plain forward was answered (chunking {chunking}, {n} messages)"));
                    }
                }
                for id in &ids {
                    if s.replies(id) > 1 {
                        v("R17b|e2e-duplicate-reply", format!("id {id} answered {} times", s.replies(id)));
                    }
                    if let Some(r) = s.reply(id) {
                        if r.get("result").and_then(|x| x.get("result")).and_then(|x| x.as_str()) != Some("continue") {
                            v("R17b|e2e-wrong-result", format!("id {id}: {}", r));
                        }
                    }
                }
                if !s.bad_docs.is_empty() {
                    v("R17c|e2e-output-document-not-json", s.bad_docs[0].clone());
                }
                *total_calls.lock().unwrap() += ids.len() as u64;
                *total_logs.lock().unwrap() += s.docs.iter().filter(|d| d.1.get("method").and_then(|m| m.as_str()) == Some("log")).count() as u64;
                let fin = s.finish();
                // (a failing notification handler is unwrapped in its own detached task: that panic
                // message is expected in sessions that send such notifications)
                if fin.stderr.contains("panicked") && !bad_notifs {
                    v("R17b|e2e-panic", fin.stderr.chars().take(300).collect());
                }
            });
        }
    });
    Ok(E2eResult {
        coverage: json!({"sessions": sessions, "hook_calls": *total_calls.lock().unwrap(), "log_notifications_interleaved": *total_logs.lock().unwrap()}),
        violations: viol,
        evals,
        inconclusive,
    })
}
