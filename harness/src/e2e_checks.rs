//! E2E checks: C06 (process-level half: hostile requests to the real binary) and C19
//! (start-up configuration validated and applied).

use crate::e2e::*;
use crate::gen::*;
use crate::prng::{mix, Rng};
use serde_json::{json, Value};
use std::collections::BTreeMap;
use std::sync::Mutex;
use std::time::{Duration, Instant};

fn local_pk() -> secp256k1::PublicKey {
    NODE_ID.parse().unwrap()
}

pub struct Inv {
    pub facts: InvoiceFacts,
    pub preimage: [u8; 32],
    pub hash: [u8; 32],
}

pub fn new_invoice(rng: &mut Rng, amount: Option<u64>, hints: Hints) -> Inv {
    let mut pre = [0u8; 32];
    pre.copy_from_slice(&rng.bytes(32));
    let hash = sha256_of(&pre);
    let facts = make_invoice(&InvoiceSpec { payment_hash: hash, amount_msat: amount, signer: Signer::Payee, hints, payee_sk: secret_key(rng), other_sk: secret_key(rng), local_pubkey: local_pk(), salt: rng.below(200) as u8 });
    Inv { facts, preimage: pre, hash }
}

pub fn tramp_request(inv: &Inv, id: u64, amount_msat: u64, total: u64, expiry: u32, height: u32) -> Value {
    let spec = HtlcSpec {
        uid: 0,
        scid: "9x9x9".into(),
        htlc_id: id,
        htlc_hash: inv.hash,
        amount_msat,
        cltv_expiry: expiry,
        forward_msat: Some(amount_msat),
        total_msat: Some(total),
        onion_scid: None,
        other_recs: vec![(2, tu64(amount_msat)), (4, tu64(expiry as u64))],
        metadata: Metadata::Tramp { invoice: inv.facts.clone(), amt: AmtField::Absent, extra_before: vec![], extra_after: vec![] },
        raw_payload_hex: None,
        label: RefLabel::Continue,
        gate: Gate::None,
        hash_hex_override: None,
    };
    request_json(&spec, height)
}

fn hook(id: &str, params: Value) -> Value {
    json!({"jsonrpc": "2.0", "id": id, "method": "htlc_accepted", "params": params})
}

fn result_of(r: &Value) -> Option<(String, Value)> {
    let res = r.get("result")?;
    let kind = res.get("result")?.as_str()?.to_string();
    Some((kind, res.clone()))
}

/// A reply to a hook call is well-formed iff it is a JSON-RPC result whose `result` is
/// continue / fail (hex failure_message) / resolve (32-byte hex payment_key).
pub fn well_formed_hook_reply(r: &Value) -> Result<String, String> {
    if r.get("error").is_some() {
        return Err(format!("JSON-RPC error reply: {}", r["error"]));
    }
    let (kind, res) = result_of(r).ok_or_else(|| format!("no result.result: {r}"))?;
    match kind.as_str() {
        "continue" => match res.get("payload") {
            None => Ok(kind),
            Some(Value::String(s)) if hex::decode(s).is_ok() => Ok(kind),
            _ => Err("continue with malformed payload".into()),
        },
        "fail" => match res.get("failure_message").and_then(|x| x.as_str()).and_then(|s| hex::decode(s).ok()) {
            Some(b) if b.len() >= 2 => Ok(kind),
            _ => Err("fail without hex failure_message".into()),
        },
        "resolve" => match res.get("payment_key").and_then(|x| x.as_str()).and_then(|s| hex::decode(s).ok()) {
            Some(b) if b.len() == 32 => Ok(kind),
            _ => Err("resolve without 32-byte payment_key".into()),
        },
        k => Err(format!("unknown result {k}")),
    }
}

struct Acc {
    viol: BTreeMap<String, (u64, String)>,
    evals: BTreeMap<String, u64>,
    inconclusive: Vec<String>,
    samples: Vec<Value>,
    classes: BTreeMap<String, u64>,
}

impl Acc {
    fn new() -> Self {
        Acc { viol: BTreeMap::new(), evals: BTreeMap::new(), inconclusive: vec![], samples: vec![], classes: BTreeMap::new() }
    }
    fn v(&mut self, sig: &str, w: String) {
        let e = self.viol.entry(sig.to_string()).or_insert((0, w));
        e.0 += 1;
    }
    fn e(&mut self, r: &str, n: u64) {
        *self.evals.entry(r.to_string()).or_insert(0) += n;
    }
    fn class(&mut self, c: String) {
        *self.classes.entry(c).or_insert(0) += 1;
    }
}

// ------------------------------------------------------------------ C06

/// Hostile request kinds for the real binary. All stay inside assumption 6: syntactically
/// valid htlc_accepted requests whose payload bytes and numbers are sender-controlled.
fn hostile_request(rng: &mut Rng, k: u64, inv: &Inv, height: u32) -> (Value, String) {
    let base = tramp_request(inv, k, 1_005_000, 1_005_000, height + 1100, height);
    let mut r = base.clone();
    let kind = rng.below(12);
    let name = match kind {
        0 => {
            // payload: arbitrary bytes (not a TLV stream at all)
            r["onion"]["payload"] = json!(hex::encode(rng.rbytes(40)));
            "payload-random-bytes"
        }
        1 => {
            // payload: structure-aware hostile TLV bytes, with a correct length prefix
            let mut p = crate::pure::P(rng.u64());
            let b = crate::pure::gen_hostile(&mut p);
            r["onion"]["payload"] = json!(hex::encode(with_len_prefix(&b)));
            "payload-hostile-tlv"
        }
        2 => {
            // metadata (record 16) is hostile bytes inside a valid payload
            let mut p = crate::pure::P(rng.u64());
            let b = crate::pure::gen_hostile(&mut p);
            let recs: Vec<Rec> = vec![(2, tu64(1000)), (4, tu64(500)), (16, b)];
            r["onion"]["payload"] = json!(hex::encode(with_len_prefix(&enc_stream(&recs))));
            "metadata-hostile-tlv"
        }
        3 => {
            // truncated varints right at the end of metadata
            let tails: [&[u8]; 5] = [&[0xfd], &[0xfd, 0x01], &[0xfe, 0, 0], &[0xff, 1, 2, 3], &[0x01, 0xfd]];
            let recs: Vec<Rec> = vec![(16, tails[rng.below(5) as usize].to_vec())];
            r["onion"]["payload"] = json!(hex::encode(with_len_prefix(&enc_stream(&recs))));
            "metadata-truncated-varint"
        }
        4 => {
            r["onion"]["payload"] = json!("0410fd01");
            "payload-0410fd01"
        }
        5 => {
            r["onion"]["total_msat"] = json!(u64::MAX);
            r["onion"]["forward_msat"] = json!(u64::MAX);
            "amounts-u64-max"
        }
        6 => {
            r["htlc"]["cltv_expiry"] = json!(u32::MAX);
            r["htlc"]["cltv_expiry_relative"] = json!(-5);
            "expiry-extremes"
        }
        7 => {
            // amountless invoice semantics: 9-byte amount field
            let recs: Vec<Rec> = vec![(16, enc_stream(&[(33001, inv.facts.bolt11.as_bytes().to_vec()), (33003, rng.bytes(9))]))];
            r["onion"]["payload"] = json!(hex::encode(with_len_prefix(&enc_stream(&recs))));
            "amount-field-9-bytes"
        }
        8 => {
            // 64 kB "invoice"
            let recs: Vec<Rec> = vec![(16, enc_stream(&[(33001, vec![b'l'; 65000])]))];
            r["onion"]["payload"] = json!(hex::encode(with_len_prefix(&enc_stream(&recs))));
            "invoice-64kB"
        }
        9 => {
            // non UTF-8 invoice
            let recs: Vec<Rec> = vec![(16, enc_stream(&[(33001, vec![0xff, 0xfe, 0xfd])]))];
            r["onion"]["payload"] = json!(hex::encode(with_len_prefix(&enc_stream(&recs))));
            "invoice-not-utf8"
        }
        10 => {
            // length prefix larger / smaller than the body
            let body = enc_stream(&[(2, tu64(1)), (16, vec![1, 2, 3])]);
            let mut b = vec![];
            put_bigsize(&mut b, if rng.chance(1, 2) { body.len() as u64 + 5 } else { 2 });
            b.extend_from_slice(&body);
            r["onion"]["payload"] = json!(hex::encode(b));
            "payload-length-prefix-lies"
        }
        _ => {
            r["onion"]["payload"] = json!("");
            "payload-empty"
        }
    };
    (r, name.to_string())
}

pub fn c06_e2e(bin: &str, seed: u64, sessions: u64, valgrind_sessions: u64, asan: Option<(String, u64)>) -> E2eResult {
    let asan_sessions = asan.as_ref().map(|a| a.1).unwrap_or(0);
    let asan_reports = std::sync::atomic::AtomicU64::new(0);
    let acc = Mutex::new(Acc::new());
    let next = std::sync::atomic::AtomicU64::new(0);
    let calls = std::sync::atomic::AtomicU64::new(0);
    let vg_reports = Mutex::new(BTreeMap::<String, u64>::new());
    std::thread::scope(|sc| {
        for _ in 0..crate::checks::threads().min(12) {
            sc.spawn(|| loop {
                let i = next.fetch_add(1, std::sync::atomic::Ordering::Relaxed);
                if i >= sessions + valgrind_sessions + asan_sessions {
                    break;
                }
                // a tree on which dozens of sessions already failed needs no further sessions, each
                // of which may wait out every timeout
                if acc.lock().unwrap().viol.values().map(|v| v.0).sum::<u64>() >= 40 {
                    break;
                }
                let vg = i >= sessions && i < sessions + valgrind_sessions;
                let use_asan = i >= sessions + valgrind_sessions;
                let bin: &str = if use_asan { asan.as_ref().map(|a| a.0.as_str()).unwrap_or(bin) } else { bin };
                let mut rng = Rng::new(mix(seed, 0xC06 + i));
                let vg_log = format!("{}/vg-{}-{}.log", crate::checks::out_dir(), std::process::id(), i);
                let opts = json!({"trampoline-mpp-timeout": 1});
                let mut s = match Session::start(bin, &opts, rng.chance(1, 2), 1000, if vg { Some(&vg_log) } else { None }) {
                    Ok((Some(s), _)) => s,
                    Ok((None, info)) => {
                        acc.lock().unwrap().inconclusive.push(format!("plugin did not start: {}", info.stderr.chars().take(200).collect::<String>()));
                        continue;
                    }
                    Err(e) => {
                        acc.lock().unwrap().inconclusive.push(e);
                        continue;
                    }
                };
                let n = if vg { 12 } else { 10 + rng.below(20) };
                let mut ids: Vec<(String, String)> = vec![];
                let mut invs = vec![];
                for k in 0..n {
                    let inv = new_invoice(&mut rng, Some(1_000_000), Hints::None);
                    s.preimages.insert(hex::encode(inv.hash), inv.preimage);
                    let (req, kind) = if rng.chance(1, 6) {
                        // a well-formed funded trampoline payment mixed in
                        (tramp_request(&inv, k, 1_005_000, 1_005_000, 1000 + 1100, 1000), "valid-trampoline".to_string())
                    } else if rng.chance(1, 8) {
                        // a partial set that must time out (mpp 1 s)
                        (tramp_request(&inv, k, 400_000, 1_005_000, 1000 + 1100, 1000), "partial-set".to_string())
                    } else {
                        hostile_request(&mut rng, k, &inv, 1000)
                    };
                    let id = format!("h{k}");
                    let chunking = *rng.pick(&[0u64, 0, 7, 300]);
                    s.send_doc(&hook(&id, req), chunking);
                    ids.push((id, kind));
                    invs.push(inv);
                    if rng.chance(1, 3) {
                        s.pump_for(Duration::from_millis(2));
                    }
                }
                let idc: Vec<String> = ids.iter().map(|x| x.0.clone()).collect();
                let slow = if vg { 30 } else { 1 };
                let all = s.pump_until(move |s| idc.iter().all(|id| s.reply(id).is_some()) || s.out_eof, Duration::from_secs(12 * slow));
                s.pump_for(Duration::from_millis(20));
                // Wall clock is no verdict on a loaded machine: if something is still unanswered,
                // ask again with a plain forward ("ping"). Only a plugin that answers the ping
                // while the older call stays unanswered is hanging on that call; otherwise the
                // session is inconclusive.
                let mut responsive = true;
                if !all && !s.out_eof {
                    s.send_doc(&hook("ping", crate::e2e::forward_request(9999, "00")), 0);
                    responsive = s.pump_until(|s| s.reply("ping").is_some() || s.out_eof, Duration::from_secs(30 * slow));
                    let idc2: Vec<String> = ids.iter().map(|x| x.0.clone()).collect();
                    // give the stragglers the same extra time the ping needed, plus the mpp timeout
                    s.pump_until(move |s| idc2.iter().all(|id| s.reply(id).is_some()) || s.out_eof, Duration::from_secs(3));
                }
                calls.fetch_add(ids.len() as u64, std::sync::atomic::Ordering::Relaxed);
                // neither the calls nor the ping answered: starved by load, or asleep (deadlock)?
                let deadlocked = !responsive && !vg && !s.out_eof && s.asleep();
                let died = s.out_eof || !s.alive();
                let mut a = acc.lock().unwrap();
                for (id, kind) in &ids {
                    a.e("R06a-e2e", 1);
                    a.class(kind.clone());
                    match s.reply(id) {
                        None => {
                            if vg && !died {
                                a.inconclusive.push("call unanswered under valgrind within the slack".into());
                            } else if died {
                                a.v(&format!("R06b|e2e-process-died|{kind}"), format!("plugin process ended; call {id} ({kind}) unanswered"));
                            } else if deadlocked {
                                a.v(&format!("R06c|e2e-deadlock|{kind}"), format!("call {id} ({kind}) and a later plain forward both unanswered after 40 s while every thread of the plugin process sleeps and consumes no CPU"));
                            } else if !responsive {
                                a.inconclusive.push("session too slow: neither the call nor a later ping was answered (valgrind/load)".into());
                            } else {
                                a.v(&format!("R06c|e2e-unanswered|{kind}"), format!("call {id} ({kind}) still unanswered 15 s after it was sent (mpp timeout 1 s) although a later plain forward was answered"));
                            }
                        }
                        Some(r) => {
                            if s.replies(id) > 1 {
                                a.v("R06a|e2e-second-answer", format!("call {id} ({kind}) answered {} times", s.replies(id)));
                            }
                            if let Err(e) = well_formed_hook_reply(r) {
                                a.v(&format!("R06a|e2e-not-a-hook-result|{kind}"), format!("call {id} ({kind}): {e}"));
                            }
                        }
                    }
                }
                let _ = all;
                if a.samples.len() < 3 {
                    a.samples.push(json!({"session": i, "calls": ids.iter().map(|x| x.1.clone()).collect::<Vec<_>>()}));
                }
                drop(a);
                let fin = s.finish();
                let mut a = acc.lock().unwrap();
                a.e("R06b-e2e", 1);
                if fin.stderr.contains("panicked") {
                    let line = fin.stderr.lines().find(|l| l.contains("panicked")).unwrap_or("").to_string();
                    let site = line.split(" at ").nth(1).unwrap_or("").split(':').take(2).collect::<Vec<_>>().join(":");
                    a.v(&format!("R06b|e2e-panic|{}", site.rsplit('/').next().unwrap_or("")), format!("stderr: {}", fin.stderr.chars().take(400).collect::<String>()));
                }
                if !fin.bad_docs.is_empty() {
                    a.v("R06a|e2e-output-not-json", fin.bad_docs[0].clone());
                }
                if fin.stderr.contains("AddressSanitizer") {
                    asan_reports.fetch_add(1, std::sync::atomic::Ordering::Relaxed);
                    let line = fin.stderr.lines().find(|l| l.contains("AddressSanitizer")).unwrap_or("").to_string();
                    a.v("R06b|e2e-asan-report", format!("AddressSanitizer stopped the plugin: {line}"));
                }
                if vg {
                    if let Ok(t) = std::fs::read_to_string(&vg_log) {
                        let mut g = vg_reports.lock().unwrap();
                        for l in t.lines().filter(|l| l.contains("Invalid ") || l.contains("uninitialised") || l.contains("definitely lost")) {
                            let key: String = l.splitn(2, "== ").nth(1).unwrap_or(l).chars().take(80).collect();
                            *g.entry(key).or_insert(0) += 1;
                        }
                    }
                    let _ = std::fs::remove_file(&vg_log);
                }
            });
        }
    });
    let a = acc.into_inner().unwrap();
    E2eResult {
        coverage: json!({
            "sessions": sessions,
            "valgrind_sessions": valgrind_sessions,
            "asan_sessions": asan_sessions,
            "asan_reports": asan_reports.load(std::sync::atomic::Ordering::Relaxed),
            "hook_calls": calls.load(std::sync::atomic::Ordering::Relaxed),
            "request_kinds": a.classes,
            "valgrind_memcheck_reports(supplementary)": vg_reports.into_inner().unwrap(),
            "samples": a.samples,
        }),
        violations: a.viol,
        evals: a.evals,
        inconclusive: a.inconclusive,
    }
}

// ------------------------------------------------------------------ C19

pub const OPT_CLTV: &str = "trampoline-cltv-delta";
pub const OPT_POLICY_CLTV: &str = "trampoline-policy-cltv-delta";
pub const OPT_BASE: &str = "trampoline-policy-fee-base";
pub const OPT_PPM: &str = "trampoline-policy-fee-per-satoshi";
pub const OPT_MPP: &str = "trampoline-mpp-timeout";
pub const OPT_PAYT: &str = "trampoline-payment-timeout";
pub const OPT_NOSELF: &str = "trampoline-no-self-route-hints";
pub const OPT_XPAY: &str = "trampoline-xpay";

#[derive(Clone, Debug)]
pub struct Assign {
    pub cltv: i64,
    pub policy: i64,
    pub base: i64,
    pub ppm: i64,
    pub mpp: i64,
    pub payt: i64,
    pub noself: bool,
    pub xpay: bool,
}

impl Assign {
    pub fn default() -> Self {
        Assign { cltv: 34, policy: 1008, base: 0, ppm: 5000, mpp: 60, payt: 60, noself: false, xpay: false }
    }
    pub fn options(&self) -> Value {
        let mut o = json!({});
        o[OPT_CLTV] = json!(self.cltv);
        o[OPT_POLICY_CLTV] = json!(self.policy);
        o[OPT_BASE] = json!(self.base);
        o[OPT_PPM] = json!(self.ppm);
        o[OPT_MPP] = json!(self.mpp);
        o[OPT_PAYT] = json!(self.payt);
        if self.noself {
            o[OPT_NOSELF] = json!(true);
        }
        o[OPT_XPAY] = json!(self.xpay);
        o
    }
    /// Reference: refuse iff a value is outside its target type or policy delta <= safety delta.
    pub fn must_refuse(&self) -> bool {
        let u16r = |v: i64| (0..=65535).contains(&v);
        let u32r = |v: i64| (0..=u32::MAX as i64).contains(&v);
        !u16r(self.cltv) || !u16r(self.policy) || self.policy <= self.cltv || !u32r(self.base) || !u32r(self.ppm) || self.mpp < 0 || self.payt < 0
    }
    fn get(&self, k: usize) -> i64 {
        [self.cltv, self.policy, self.base, self.ppm, self.mpp, self.payt][k]
    }
    fn set(&mut self, k: usize, v: i64) {
        match k {
            0 => self.cltv = v,
            1 => self.policy = v,
            2 => self.base = v,
            3 => self.ppm = v,
            4 => self.mpp = v,
            _ => self.payt = v,
        }
    }
}

fn values_for(k: usize) -> Vec<i64> {
    let d = Assign::default().get(k);
    let mut v = vec![-1, 0, 1, d, 65535, 65536, u32::MAX as i64, u32::MAX as i64 + 1, i64::MAX];
    if k == 4 {
        v.extend([2, 3]);
    }
    v
}

pub fn assignments(rng: &mut Rng, quick: bool) -> Vec<Assign> {
    let mut out = vec![Assign::default()];
    // deltas equal / swapped / adjacent
    for (c, p) in [(34, 34), (1008, 34), (34, 35), (35, 34), (0, 1), (0, 0), (65534, 65535), (65535, 65535), (1, 65535)] {
        let mut a = Assign::default();
        a.cltv = c;
        a.policy = p;
        out.push(a);
    }
    // all pairs
    for i in 0..6 {
        for j in (i + 1)..6 {
            for vi in values_for(i) {
                for vj in values_for(j) {
                    let mut a = Assign::default();
                    a.set(i, vi);
                    a.set(j, vj);
                    a.noself = rng.chance(1, 2);
                    a.xpay = rng.chance(1, 2);
                    out.push(a);
                }
            }
        }
    }
    if quick {
        // seeded subsample; keep the hand-picked head
        let head: Vec<Assign> = out.drain(..10).collect();
        rng.shuffle(&mut out);
        // balance accepted / refused
        let mut acc: Vec<Assign> = out.iter().filter(|a| !a.must_refuse()).take(70).cloned().collect();
        let rej: Vec<Assign> = out.iter().filter(|a| a.must_refuse()).take(90).cloned().collect();
        let mut v = head;
        v.append(&mut acc);
        v.extend(rej);
        v
    } else {
        out
    }
}

pub fn c19_e2e(bin: &str, seed: u64, quick: bool) -> (E2eResult, u64, u64) {
    let mut rng0 = Rng::new(mix(seed, 0xC19));
    let assigns = assignments(&mut rng0, quick);
    let acc = Mutex::new(Acc::new());
    let next = std::sync::atomic::AtomicU64::new(0);
    let distinct = Mutex::new(std::collections::BTreeSet::<String>::new());
    std::thread::scope(|sc| {
        for _ in 0..crate::checks::threads().min(12) {
            sc.spawn(|| loop {
                let i = next.fetch_add(1, std::sync::atomic::Ordering::Relaxed) as usize;
                if i >= assigns.len() {
                    break;
                }
                let a = &assigns[i];
                let mut rng = Rng::new(mix(seed, 0x19000 + i as u64));
                let height = 5000u32;
                let started = Session::start(bin, &a.options(), false, height, None);
                let refuse = a.must_refuse();
                distinct.lock().unwrap().insert(format!("{:?}", (a.cltv, a.policy, a.base, a.ppm, a.mpp, a.payt, a.noself, a.xpay)));
                let mut s = match started {
                    Err(e) => {
                        acc.lock().unwrap().inconclusive.push(format!("session error: {e}"));
                        continue;
                    }
                    Ok((None, info)) => {
                        let mut g = acc.lock().unwrap();
                        g.e("R19a", 1);
                        g.class(format!("refused(expected={refuse})"));
                        if !refuse {
                            g.v("R19a|refused-valid-configuration", format!("{a:?}: exited (code {:?}) without acknowledging init; stderr {}", info.exit_code, info.stderr.chars().take(300).collect::<String>()));
                        } else if info.exit_code == Some(0) {
                            g.v("R19a|refusal-with-exit-0", format!("{a:?}: refused but exit code 0"));
                        }
                        if g.samples.len() < 2 {
                            g.samples.push(json!({"assignment": format!("{a:?}"), "outcome": "refused", "exit_code": info.exit_code}));
                        }
                        continue;
                    }
                    Ok((Some(s), _)) => s,
                };
                {
                    let mut g = acc.lock().unwrap();
                    g.e("R19a", 1);
                    g.class(format!("accepted(expected_refuse={refuse})"));
                    if refuse {
                        g.v("R19a|accepted-invalid-configuration", format!("{a:?}: init acknowledged"));
                    }
                }
                if refuse {
                    s.finish();
                    continue;
                }
                // ---- R19b probes
                let amount = 1_000_000u64;
                let fee = a.base as u64 + amount * a.ppm as u64 / 1_000_000;
                let need = amount + fee;
                let pd = a.policy as u32;
                let cd = a.cltv as u32;
                let mut notes: Vec<String> = vec![];
                if a.mpp != 0 {
                    // probe 1: relative expiry one below the policy delta => 201a with the configured policy
                    let inv = new_invoice(&mut rng, Some(amount), Hints::None);
                    if pd >= 1 {
                        let req = tramp_request(&inv, 1, need, need, height + pd - 1, height);
                        s.send_doc(&hook("p1", req), 0);
                        let wres = s.wait_or_ping(|s| s.reply("p1").is_some(), Duration::from_secs(8));
                        if wres == Wait::TooSlow {
                            acc.lock().unwrap().inconclusive.push("mpp probe: session too slow to judge".into());
                            s.finish();
                            continue;
                        }
                        let ok = wres == Wait::Done;
                        let mut g = acc.lock().unwrap();
                        g.e("R19b-policy", 1);
                        let mut want = vec![0x20u8, 0x1a];
                        want.extend_from_slice(&(a.base as u32).to_be_bytes());
                        want.extend_from_slice(&(a.ppm as u32).to_be_bytes());
                        want.extend_from_slice(&(a.policy as u16).to_be_bytes());
                        let got = s.reply("p1").and_then(|r| r["result"]["failure_message"].as_str().map(|x| x.to_string()));
                        if !ok || got.as_deref() != Some(hex::encode(&want).as_str()) {
                            g.v("R19b|advertised-policy-differs", format!("{a:?}: low-expiry HTLC answered {:?}, expected fail {}", s.reply("p1"), hex::encode(&want)));
                        }
                    }
                    // probe 2: funded payment => pay parameters
                    let inv2 = new_invoice(&mut rng, Some(amount), if a.noself { Hints::Other } else { Hints::SelfLast });
                    s.preimages.insert(hex::encode(inv2.hash), inv2.preimage);
                    let req = tramp_request(&inv2, 2, need, need, height + pd, height);
                    s.send_doc(&hook("p2", req), 0);
                    let wres = s.wait_or_ping(|s| s.reply("p2").is_some(), Duration::from_secs(8));
                        if wres == Wait::TooSlow {
                            acc.lock().unwrap().inconclusive.push("mpp probe: session too slow to judge".into());
                            s.finish();
                            continue;
                        }
                        let ok = wres == Wait::Done;
                    {
                        let mut g = acc.lock().unwrap();
                        g.e("R19b-pay", 1);
                        let kind = s.reply("p2").and_then(result_of).map(|x| x.0);
                        if !ok || kind.as_deref() != Some("resolve") || s.pays_seen.is_empty() {
                            g.v("R19b|funded-payment-not-paid", format!("{a:?}: funded set answered {:?}, pays seen {}", s.reply("p2"), s.pays_seen.len()));
                        } else {
                            let p = s.pays_seen.last().unwrap().clone();
                            let want_retry = (a.payt as u64).min(65535);
                            if p["retry_for"].as_u64() != Some(want_retry) {
                                g.v("R19b|retry_for-differs", format!("{a:?}: pay.retry_for {} expected {want_retry}", p["retry_for"]));
                            }
                            let want_delay = (pd - cd).min(pd) as u64;
                            if p["maxdelay"].as_u64() != Some(want_delay) {
                                g.v("R19b|maxdelay-differs", format!("{a:?}: pay.maxdelay {} expected min({pd}-{cd},{pd})={want_delay}", p["maxdelay"]));
                            }
                            let want_fee = format!("{}msat", fee);
                            if p["maxfee"].as_str() != Some(want_fee.as_str()) {
                                g.v("R19b|maxfee-differs", format!("{a:?}: pay.maxfee {} expected {want_fee}", p["maxfee"]));
                            }
                            let has_label = p.get("label").map(|l| !l.is_null()).unwrap_or(false);
                            if has_label == a.xpay {
                                g.v("R19b|xpay-flag-not-applied", format!("{a:?}: pay label present={has_label}"));
                            }
                        }
                    }
                    // probe 5: expiry slack strictly between the policy delta and policy delta + safety
                    // delta: the safety margin, not the policy cap, must bound maxdelay
                    if cd >= 2 && pd as u64 + (cd as u64) / 2 <= 60000 {
                        let inv5 = new_invoice(&mut rng, Some(amount), Hints::None);
                        s.preimages.insert(hex::encode(inv5.hash), inv5.preimage);
                        let rel = pd + cd / 2;
                        let before = s.pays_seen.len();
                        s.send_doc(&hook("p5", tramp_request(&inv5, 5, need, need, height + rel, height)), 0);
                        let wres = s.wait_or_ping(|s| s.reply("p5").is_some(), Duration::from_secs(8));
                        if wres == Wait::Done && s.pays_seen.len() > before {
                            let p = s.pays_seen.last().unwrap().clone();
                            let want = ((rel - cd) as u64).min(pd as u64);
                            let mut g = acc.lock().unwrap();
                            g.e("R19b-margin", 1);
                            if p["maxdelay"].as_u64() != Some(want) {
                                g.v("R19b|safety-margin-not-applied", format!("{a:?}: relative expiry {rel}: pay.maxdelay {} expected min({rel}-{cd},{pd})={want}", p["maxdelay"]));
                            }
                        } else if wres == Wait::TooSlow {
                            acc.lock().unwrap().inconclusive.push("mpp probe: session too slow to judge".into());
                        }
                    }
                    // probe 4: self route hint with the flag set => failed at once (2002)
                    if a.noself {
                        let inv4 = new_invoice(&mut rng, Some(amount), Hints::SelfLast);
                        let req = tramp_request(&inv4, 4, need, need, height + pd, height);
                        s.send_doc(&hook("p4", req), 0);
                        let wres = s.wait_or_ping(|s| s.reply("p4").is_some(), Duration::from_secs(8));
                        if wres == Wait::TooSlow {
                            acc.lock().unwrap().inconclusive.push("mpp probe: session too slow to judge".into());
                            s.finish();
                            continue;
                        }
                        let ok = wres == Wait::Done;
                        let mut g = acc.lock().unwrap();
                        g.e("R19b-noself", 1);
                        let got = s.reply("p4").and_then(|r| r["result"]["failure_message"].as_str().map(|x| x.to_string()));
                        if !ok || got.as_deref() != Some("2002") {
                            g.v("R19b|no-self-route-hints-not-applied", format!("{a:?}: self-hinted invoice answered {:?}", s.reply("p4")));
                        }
                    }
                    // probe 3: partial set, small mpp timeouts only
                    if (1..=3).contains(&a.mpp) {
                        let inv3 = new_invoice(&mut rng, Some(amount), Hints::None);
                        let req = tramp_request(&inv3, 3, need / 2, need, height + pd, height);
                        let t_send = Instant::now();
                        s.send_doc(&hook("p3", req), 0);
                        let ok = s.pump_until(|s| s.reply("p3").is_some() || s.out_eof, Duration::from_secs(a.mpp as u64 + 6));
                        let mut g = acc.lock().unwrap();
                        g.e("R19b-mpp", 1);
                        match s.reply_at("p3") {
                            Some((t, r)) if ok => {
                                let el = t.duration_since(t_send);
                                if r["result"]["failure_message"].as_str() != Some("2019") {
                                    g.v("R19b|partial-set-wrong-answer", format!("{a:?}: {r}"));
                                } else if el < Duration::from_millis(a.mpp as u64 * 1000 - 20) {
                                    g.v("R19b|mpp-timeout-shorter-than-configured", format!("{a:?}: failed after {el:?}"));
                                } else if el > Duration::from_secs(a.mpp as u64 + 5) {
                                    g.inconclusive.push(format!("mpp probe answered after {el:?} (load?)"));
                                }
                            }
                            _ => g.inconclusive.push(format!("{a:?}: partial set not answered within mpp+6 s")),
                        }
                    } else {
                        notes.push("mpp probe skipped (timeout not in 1..=3 s)".into());
                    }
                } else {
                    notes.push("mpp=0: every set fails at once; pay probes skipped".into());
                    let inv = new_invoice(&mut rng, Some(amount), Hints::None);
                    let req = tramp_request(&inv, 1, need, need, height + pd, height);
                    s.send_doc(&hook("p0", req), 0);
                    let wres = s.wait_or_ping(|s| s.reply("p0").is_some(), Duration::from_secs(8));
                        if wres == Wait::TooSlow {
                            acc.lock().unwrap().inconclusive.push("mpp probe: session too slow to judge".into());
                            s.finish();
                            continue;
                        }
                        let ok = wres == Wait::Done;
                    let mut g = acc.lock().unwrap();
                    g.e("R19b-mpp0", 1);
                    let got = s.reply("p0").and_then(|r| r["result"]["failure_message"].as_str().map(|x| x.to_string()));
                    if !ok || got.as_deref() != Some("2019") {
                        g.v("R19b|mpp-zero-not-immediate", format!("{a:?}: {:?}", s.reply("p0")));
                    }
                }
                let alive = s.alive();
                {
                    let mut g = acc.lock().unwrap();
                    if !alive {
                        g.v("R19a|accepted-but-stopped-serving", format!("{a:?}: process ended after probes"));
                    }
                    if g.samples.len() < 4 {
                        g.samples.push(json!({"assignment": format!("{a:?}"), "outcome": "accepted", "pay_params": s.pays_seen.last(), "notes": notes}));
                    }
                }
                let fin = s.finish();
                if fin.stderr.contains("panicked") {
                    acc.lock().unwrap().v("R19a|panic", fin.stderr.chars().take(300).collect());
                }
            });
        }
    });
    let a = acc.into_inner().unwrap();
    let n = assigns.len() as u64;
    let d = distinct.into_inner().unwrap().len() as u64;
    (E2eResult { coverage: json!({"assignments": n, "outcome_classes": a.classes, "samples": a.samples}), violations: a.viol, evals: a.evals, inconclusive: a.inconclusive }, n, d)
}

// ------------------------------------------------------------------ crash / restart sessions (C05, C08, C09, C01 cross-checks)

/// Real binary, real rpc.rs socket code, SIGKILL placed by the node right after it applied the
/// effect of RPC number k (the plugin is then provably blocked on that reply). The node state
/// (datastore, sendpays) survives; the HTLCs are re-offered to a fresh process; finally up to
/// three fully funded probes must settle (C09). R05/R08a/R08b/R08c are evaluated on the node's
/// own state after its own effects, R01a on every resolve answer.
pub fn crash_sessions(bin: &str, seed: u64, thorough: bool) -> E2eResult {
    let scripts: Vec<(&'static str, bool)> = vec![("complete", true), ("failed", false), ("pending", true), ("pending", false)];
    // (script, HTLCs, RPC index, what happens there: false = the plugin is killed, true = only the
    // connection carrying that RPC dies, after lightningd executed the command)
    let mut items: Vec<(usize, usize, usize, bool)> = vec![];
    for (si, _) in scripts.iter().enumerate() {
        for n in if thorough { vec![1usize, 2] } else { vec![1usize] } {
            for k in 0..14 {
                items.push((si, n, k, false));
            }
            for k in 0..(if thorough { 12 } else { 8 }) {
                items.push((si, n, k, true));
            }
        }
    }
    let acc = Mutex::new(Acc::new());
    let next = std::sync::atomic::AtomicU64::new(0);
    let kills_effective = std::sync::atomic::AtomicU64::new(0);
    std::thread::scope(|sc| {
        for _ in 0..crate::checks::threads().min(12) {
            sc.spawn(|| loop {
                let i = next.fetch_add(1, std::sync::atomic::Ordering::Relaxed) as usize;
                if i >= items.len() {
                    break;
                }
                let (si, n, k, drop_conn) = items[i];
                let mut rng = Rng::new(mix(seed, 0xCA5 + i as u64));
                let height = 3000u32;
                let opts = json!({"trampoline-mpp-timeout": 5});
                let inv = new_invoice(&mut rng, Some(1_000_000), Hints::None);
                let hx = hex::encode(inv.hash);
                let need = 1_005_000u64;
                let amounts: Vec<u64> = if n == 1 { vec![need] } else { vec![need / 2, need - need / 2] };
                let mut s = match Session::start(bin, &opts, false, height, None) {
                    Ok((Some(s), _)) => s,
                    _ => {
                        acc.lock().unwrap().inconclusive.push("plugin did not start".into());
                        continue;
                    }
                };
                s.preimages.insert(hx.clone(), inv.preimage);
                s.hashes = vec![hx.clone()];
                s.pay_script = Some(scripts[si]);
                if drop_conn {
                    s.drop_at_rpc = Some(k);
                } else {
                    s.kill_at_rpc = Some(k);
                }
                let mut ids: Vec<String> = vec![];
                for (j, am) in amounts.iter().enumerate() {
                    let id = format!("c{j}");
                    s.send_doc(&hook(&id, tramp_request(&inv, j as u64, *am, need, height + 1100, height)), 0);
                    ids.push(id);
                }
                let idc = ids.clone();
                s.pump_until(move |s| s.killed || s.out_eof || idc.iter().all(|id| s.reply(id).is_some()), Duration::from_secs(12));
                // the lifecycle's bookkeeping (mark_succeeded / mark_failed) comes after the answers:
                // keep serving until the RPC stream has been quiet for a while, so kill points there are reached
                let mut last = s.rpc_count;
                for _ in 0..10 {
                    if s.killed || s.out_eof {
                        break;
                    }
                    s.pump_for(Duration::from_millis(60));
                    if s.rpc_count == last {
                        break;
                    }
                    last = s.rpc_count;
                }
                let mut answered: BTreeMap<String, Value> = BTreeMap::new();
                for id in &ids {
                    if let Some(r) = s.reply(id) {
                        answered.insert(id.clone(), r.clone());
                    }
                }
                let killed = s.killed;
                let ctx = format!("script={:?} htlcs={n} {}={k}", scripts[si], if drop_conn { "connection_lost_at_rpc" } else { "kill_at_rpc" });
                let mut second: Option<Session> = None;
                let mut viol;
                let mut node;
                if drop_conn && !killed {
                    // same process: after a lost connection every HTLC is still answered ...
                    let idc2 = ids.clone();
                    let idr = &idc2;
                    let wres = s.wait_or_ping(|s| idr.iter().all(|id| s.reply(id).is_some()), Duration::from_secs(20));
                    if wres == Wait::TooSlow {
                        acc.lock().unwrap().inconclusive.push("crash session too slow to judge".into());
                    }
                    if wres == Wait::Hung || wres == Wait::Died {
                        acc.lock().unwrap().v("R06c|e2e-unanswered-after-lost-connection", format!("{ctx}: HTLCs not all answered ({wres:?}) although later plain forwards were (mpp 5 s)"));
                    }
                    for id in &ids {
                        if let Some(r) = s.reply(id) {
                            answered.insert(id.clone(), r.clone());
                        }
                    }
                    // let the bookkeeping writes that follow the answers land
                    s.pump_for(Duration::from_millis(300));
                    viol = std::mem::take(&mut s.node_violations);
                    node = s.node.clone();
                    if s.dropped {
                        kills_effective.fetch_add(1, std::sync::atomic::Ordering::Relaxed);
                    }
                    // ... and the probes go to this very process (a wedge may live in memory)
                    second = Some(s);
                } else {
                    node = s.node.clone();
                    viol = std::mem::take(&mut s.node_violations);
                    s.finish();
                }
                if killed {
                    kills_effective.fetch_add(1, std::sync::atomic::Ordering::Relaxed);
                    node.crash();
                    let mut s2 = match Session::start(bin, &opts, false, height, None) {
                        Ok((Some(s2), _)) => s2,
                        _ => {
                            acc.lock().unwrap().inconclusive.push("plugin did not restart".into());
                            continue;
                        }
                    };
                    s2.node = node.clone();
                    s2.preimages.insert(hx.clone(), inv.preimage);
                    s2.hashes = vec![hx.clone()];
                    s2.pay_script = Some(scripts[si]);
                    // re-offer what the node had not seen answered
                    let mut re: Vec<String> = vec![];
                    for (j, am) in amounts.iter().enumerate() {
                        let id = format!("c{j}");
                        if !answered.contains_key(&id) {
                            let rid = format!("r{j}");
                            s2.send_doc(&hook(&rid, tramp_request(&inv, j as u64, *am, need, height + 1100, height)), 0);
                            re.push(rid);
                        }
                    }
                    let rc = &re;
                    let wres = s2.wait_or_ping(|s| rc.iter().all(|id| s.reply(id).is_some()), Duration::from_secs(20));
                    let ok = wres != Wait::Hung && wres != Wait::Died;
                    if wres == Wait::TooSlow {
                        acc.lock().unwrap().inconclusive.push("crash session too slow to judge".into());
                    }
                    for id in &re {
                        if let Some(r) = s2.reply(id) {
                            answered.insert(id.clone(), r.clone());
                        }
                    }
                    if !ok {
                        acc.lock().unwrap().v("R06c|e2e-replayed-htlc-unanswered", format!("{ctx}: replayed HTLCs {re:?} not all answered although a later plain forward was answered (mpp 5 s)"));
                    }
                    viol.extend(std::mem::take(&mut s2.node_violations));
                    second = Some(s2);
                }
                // R01a on every resolve
                {
                    let mut g = acc.lock().unwrap();
                    for (id, r) in &answered {
                        g.e("R01a-e2e", 1);
                        if let Some((kind, res)) = result_of(r) {
                            if kind == "resolve" {
                                let key = res["payment_key"].as_str().and_then(|x| hex::decode(x).ok()).unwrap_or_default();
                                if sha256_of(&key) != inv.hash {
                                    g.v("R01a|e2e-key-not-preimage", format!("{ctx}: {id} resolved with a key that does not hash to the HTLC's hash"));
                                }
                            }
                        }
                    }
                }
                // C09 probes (same process as the last lifetime; the SIM covers the restart variant)
                let mut ps = match second {
                    Some(s2) => s2,
                    None => match Session::start(bin, &opts, false, height, None) {
                        Ok((Some(mut s3), _)) => {
                            s3.node = node.clone();
                            s3.preimages.insert(hx.clone(), inv.preimage);
                            s3.hashes = vec![hx.clone()];
                            s3
                        }
                        _ => {
                            acc.lock().unwrap().inconclusive.push("plugin did not start for probes".into());
                            continue;
                        }
                    },
                };
                ps.pay_script = Some(("complete", true));
                let mut settled = false;
                let mut probe_answers = vec![];
                for p in 0..3 {
                    let id = format!("p{p}");
                    ps.send_doc(&hook(&id, tramp_request(&inv, 50 + p, need, need, height + 1100, height)), 0);
                    let idc = id.clone();
                    ps.pump_until(move |s| s.out_eof || s.reply(&idc).is_some(), Duration::from_secs(15));
                    let r = ps.reply(&id).cloned();
                    let kind = r.as_ref().and_then(result_of).map(|x| x.0);
                    probe_answers.push(format!("{:?}", r.as_ref().map(|x| x["result"].to_string())));
                    if kind.as_deref() == Some("resolve") {
                        settled = true;
                        break;
                    }
                }
                viol.extend(std::mem::take(&mut ps.node_violations));
                let fin = ps.finish();
                let mut g = acc.lock().unwrap();
                g.e("R09-e2e", 1);
                g.e("R05-e2e", 1);
                g.e("R08a-e2e", 1);
                g.class(format!("{:?}|killed={killed}|connection_lost={}", scripts[si], drop_conn));
                if !settled {
                    g.v("R09|e2e-wedged", format!("{ctx}: three probes after the history did not settle: {probe_answers:?}; record reads {}", rec_of(&node, &hx)));
                }
                for (sig, d) in viol {
                    g.v(&sig, format!("{ctx}: {d}"));
                }
                if fin.stderr.contains("panicked") {
                    g.v("R06b|e2e-panic", format!("{ctx}: {}", fin.stderr.chars().take(300).collect::<String>()));
                }
                if g.samples.len() < 3 {
                    g.samples.push(json!({"scenario": ctx, "killed": killed, "answers": answered.iter().map(|(k, v)| format!("{k}: {}", v["result"])).collect::<Vec<_>>(), "probes": probe_answers}));
                }
            });
        }
    });
    let a = acc.into_inner().unwrap();
    E2eResult {
        coverage: json!({"sessions": items.len(), "sessions_in_which_the_kill_point_was_reached": kills_effective.load(std::sync::atomic::Ordering::Relaxed), "classes": a.classes, "samples": a.samples}),
        violations: a.viol,
        evals: a.evals,
        inconclusive: a.inconclusive,
    }
}

// ------------------------------------------------------------------ C14 E2E: isolation through the real rpc.rs

/// Payment A gets stuck inside `pay` (never returns) or inside `waitsendpay` (part never
/// resolves); payment B for another hash must still be paid and settled promptly. This is the
/// only place where the real socket transport of rpc.rs takes part in an isolation check.
pub fn c14_e2e(bin: &str, seed: u64, sessions: u64) -> E2eResult {
    let acc = Mutex::new(Acc::new());
    let next = std::sync::atomic::AtomicU64::new(0);
    std::thread::scope(|sc| {
        for _ in 0..crate::checks::threads().min(8) {
            sc.spawn(|| loop {
                let i = next.fetch_add(1, std::sync::atomic::Ordering::Relaxed);
                if i >= sessions {
                    break;
                }
                let mut rng = Rng::new(mix(seed, 0xC14 + i));
                let at: &'static str = if i % 2 == 0 { "pay" } else { "waitsendpay" };
                let height = 2000u32;
                let mut s = match Session::start(bin, &json!({"trampoline-mpp-timeout": 30}), i % 3 == 0, height, None) {
                    Ok((Some(s), _)) => s,
                    _ => {
                        acc.lock().unwrap().inconclusive.push("plugin did not start".into());
                        continue;
                    }
                };
                // every fourth session: one stalled multi-part payment with 40 parts waiting on its
                // timer (a global cap on concurrently held hooks would starve other hashes)
                let many = i % 4 == 3;
                let n_a = if many { 0 } else { 1 + (i % 3) as usize };
                let mut a_ids = vec![];
                if many {
                    let a = new_invoice(&mut rng, Some(50_000_000), Hints::None);
                    for k in 0..40u64 {
                        let id = format!("m{k}");
                        s.send_doc(&hook(&id, tramp_request(&a, 1000 + k, 1_000_000, 50_250_000, height + 1100, height)), 0);
                        a_ids.push(id);
                    }
                    s.pump_for(Duration::from_millis(150));
                }
                for k in 0..n_a {
                    let a = new_invoice(&mut rng, Some(1_000_000), Hints::None);
                    s.stuck.push((hex::encode(a.hash), at));
                    let id = format!("a{k}");
                    s.send_doc(&hook(&id, tramp_request(&a, k as u64, 1_005_000, 1_005_000, height + 1100, height)), 0);
                    a_ids.push(id);
                }
                // let A reach its stuck point
                let want = n_a;
                s.pump_until(move |s| s.pays_seen.len() >= want || s.out_eof, Duration::from_secs(8));
                s.pump_for(Duration::from_millis(50));
                let b = new_invoice(&mut rng, Some(2_000_000), Hints::None);
                s.preimages.insert(hex::encode(b.hash), b.preimage);
                let t0 = Instant::now();
                // HTLC ids are per channel: in half of the sessions B's HTLC has the same id as A's
                // first one, on another channel
                let mut breq = tramp_request(&b, if i % 2 == 0 { 99 } else if many { 1000 } else { 0 }, 2_010_000, 2_010_000, height + 1100, height);
                breq["htlc"]["short_channel_id"] = json!("7x7x7");
                s.send_doc(&hook("b", breq), 0);
                let wres = s.wait_or_ping(|s| s.reply("b").is_some(), Duration::from_secs(10));
                if wres == Wait::TooSlow {
                    acc.lock().unwrap().inconclusive.push("session too slow to judge".into());
                    s.finish();
                    continue;
                }
                let ok = wres == Wait::Done;
                let el = t0.elapsed();
                let kind = s.reply("b").and_then(result_of).map(|x| x.0);
                let a_answered: Vec<&String> = a_ids.iter().filter(|id| s.reply(id).is_some()).collect();
                let mut g = acc.lock().unwrap();
                g.e("R14a-e2e", 1);
                g.class(if many { "A = 40 parts waiting on the MPP timer".to_string() } else { format!("A stuck in {at} x{n_a}") });
                if !ok || kind.as_deref() != Some("resolve") {
                    g.v(&format!("R14a|e2e-other-hash-blocked|{at}"), format!("{n_a} payment(s) stuck in {at}; payment B for another hash answered {:?} after {el:?} although a later plain forward was answered", s.reply("b").map(|r| r["result"].to_string())));
                }
                if !a_answered.is_empty() {
                    g.v(&format!("R14a|e2e-stuck-payment-answered|{at}"), format!("HTLCs {a_answered:?} of the stuck payment were answered"));
                }
                if g.samples.len() < 2 {
                    g.samples.push(json!({"stuck_in": at, "stuck_payments": n_a, "b_answer_ms": el.as_millis() as u64}));
                }
                drop(g);
                s.finish();
            });
        }
    });
    let a = acc.into_inner().unwrap();
    E2eResult { coverage: json!({"sessions": sessions, "classes": a.classes, "samples": a.samples}), violations: a.viol, evals: a.evals, inconclusive: a.inconclusive }
}

// ------------------------------------------------------------------ C20 / C04 E2E: heights through the real plugin protocol

/// block_added notifications and getinfo polls reach the real binary through plugin.rs /
/// rpc.rs; the height the plugin *uses* is read off the maxdelay of a pay request:
/// maxdelay = expiry - height_used - safety_delta (kept below the policy cap by construction).
pub fn c20_e2e(bin: &str, seed: u64, sessions: u64, long_sessions: u64) -> E2eResult {
    let acc = Mutex::new(Acc::new());
    let next = std::sync::atomic::AtomicU64::new(0);
    std::thread::scope(|sc| {
        for _ in 0..crate::checks::threads().min(8) {
            sc.spawn(|| loop {
                let i = next.fetch_add(1, std::sync::atomic::Ordering::Relaxed);
                if i >= sessions + long_sessions {
                    break;
                }
                let long = i >= sessions;
                let mut rng = Rng::new(mix(seed, 0xC20 + i));
                let h0 = 1000 + rng.below(100_000) as u32;
                let (pd, cd) = (1008u32, 34u32);
                let mut s = match Session::start(bin, &json!({}), false, h0, None) {
                    Ok((Some(s), _)) => s,
                    _ => {
                        acc.lock().unwrap().inconclusive.push("plugin did not start".into());
                        continue;
                    }
                };
                // a sequence of notifications: rising, repeated, stale, zero. Every third session
                // sends a burst of several hundred in one write: the real binary handles them on
                // a multi-threaded runtime, so their handlers genuinely race on the height.
                let mut told_max = h0;
                let burst = i % 3 == 2;
                let n = if burst { 200 + rng.below(200) } else { 1 + rng.below(6) };
                let mut burst_bytes: Vec<u8> = vec![];
                let mut seq = vec![];
                for _ in 0..n {
                    let h = match rng.below(5) {
                        0 => told_max.saturating_sub(rng.below(5) as u32),
                        1 => 0,
                        2 => told_max,
                        _ => told_max + 1 + rng.below(6) as u32,
                    };
                    if seq.len() < 12 {
                        seq.push(h);
                    }
                    told_max = told_max.max(h);
                    let doc = json!({"jsonrpc": "2.0", "method": "block_added", "params": {"block_added": {"hash": "00", "height": h}}});
                    if burst {
                        burst_bytes.extend_from_slice(format!("{}\n\n", doc).as_bytes());
                    } else {
                        s.send_doc(&doc, 0);
                    }
                }
                if burst {
                    s.send_raw(&burst_bytes, 0);
                    s.pump_for(Duration::from_millis(300));
                }
                if !long {
                    // 40 rounds of two *new* heights delivered higher-first in one write (their
                    // handlers run concurrently in the real binary), each followed by a probe
                    let mut bad: Option<String> = None;
                    for r in 0..40u64 {
                        let (hi, lo) = (told_max + 2, told_max + 1);
                        let mut b = vec![];
                        for h in [hi, lo, lo, hi - 1] {
                            b.extend_from_slice(format!("{}\n\n", json!({"jsonrpc": "2.0", "method": "block_added", "params": {"block_added": {"hash": "00", "height": h}}})).as_bytes());
                        }
                        s.send_raw(&b, 0);
                        told_max = hi;
                        s.pump_for(Duration::from_millis(12));
                        let inv = new_invoice(&mut rng, Some(1_000_000), Hints::None);
                        s.preimages.insert(hex::encode(inv.hash), inv.preimage);
                        let expiry = told_max + pd + 20;
                        let before = s.pays_seen.len();
                        let id = format!("b{r}");
                        s.send_doc(&hook(&id, tramp_request(&inv, 100 + r, 1_005_000, 1_005_000, expiry, told_max)), 0);
                        let idr: &str = &id;
                        let w = s.wait_or_ping(|s| s.reply(idr).is_some(), Duration::from_secs(10));
                        if w != Wait::Done || s.pays_seen.len() <= before {
                            break;
                        }
                        let md = s.pays_seen.last().unwrap()["maxdelay"].as_u64().unwrap_or(u64::MAX);
                        let want = (expiry - told_max - cd) as u64;
                        acc.lock().unwrap().e("R20a-e2e", 1);
                        if md != want {
                            // a lagging notification handler (load) is not a regression: look again
                            // after a pause, without telling the plugin anything new
                            s.pump_for(Duration::from_millis(400));
                            let inv2 = new_invoice(&mut rng, Some(1_000_000), Hints::None);
                            s.preimages.insert(hex::encode(inv2.hash), inv2.preimage);
                            let before2 = s.pays_seen.len();
                            let id2 = format!("c{r}");
                            s.send_doc(&hook(&id2, tramp_request(&inv2, 300 + r, 1_005_000, 1_005_000, expiry, told_max)), 0);
                            let id2r: &str = &id2;
                            let w2 = s.wait_or_ping(|s| s.reply(id2r).is_some(), Duration::from_secs(10));
                            let md2 = if w2 == Wait::Done && s.pays_seen.len() > before2 { s.pays_seen.last().unwrap()["maxdelay"].as_u64().unwrap_or(u64::MAX) } else { want };
                            if md2 != want {
                                bad = Some(format!("round {r}: heights {hi},{lo} delivered together (higher first): pay.maxdelay {md} and, 400 ms later, {md2} mean height {} was used, the maximum told is {told_max}", expiry as i64 - cd as i64 - md2 as i64));
                            }
                            break;
                        }
                    }
                    if let Some(b) = bad {
                        acc.lock().unwrap().v("R20a|e2e-height-used-not-max-told", b);
                    }
                }
                if long && i % 2 == 1 {
                    // another payment is sitting in a pay command that does not return during the
                    // whole poll interval: the poll must not wait for it
                    let invs = new_invoice(&mut rng, Some(1_000_000), Hints::None);
                    let hxs = hex::encode(invs.hash);
                    s.preimages.insert(hxs.clone(), invs.preimage);
                    s.stuck.push((hxs, "pay"));
                    s.send_doc(&hook("stuck", tramp_request(&invs, 77, 1_005_000, 1_005_000, told_max + pd + 500, told_max)), 0);
                    s.pump_until(|s| !s.held.is_empty() || s.out_eof, Duration::from_secs(10));
                    acc.lock().unwrap().class(format!("payment stuck in pay during the poll interval: {}", !s.held.is_empty()));
                }
                if long {
                    // notifications lost: the node's height rises silently; one poll interval later
                    // the plugin must have caught up through getinfo
                    s.node.height = told_max + 7;
                    told_max += 7;
                    s.pump_for(Duration::from_secs(63));
                } else {
                    s.pump_for(Duration::from_millis(40));
                }
                // probe: funded payment whose expiry leaves less than the policy cap
                let inv = new_invoice(&mut rng, Some(1_000_000), Hints::None);
                s.preimages.insert(hex::encode(inv.hash), inv.preimage);
                let expiry = told_max + pd + 20;
                let before = s.pays_seen.len();
                // cltv_expiry_relative is computed by lightningd from its own height
                s.send_doc(&hook("h", tramp_request(&inv, 1, 1_005_000, 1_005_000, expiry, told_max)), 0);
                let wres = s.wait_or_ping(|s| s.reply("h").is_some(), Duration::from_secs(10));
                let mut g = acc.lock().unwrap();
                if wres == Wait::TooSlow {
                    g.inconclusive.push("session too slow to judge".into());
                } else if s.pays_seen.len() > before {
                    let mut md = s.pays_seen.last().unwrap()["maxdelay"].as_u64().unwrap_or(u64::MAX);
                    let want = (expiry - told_max - cd) as u64;
                    if md != want && !long {
                        // a lagging notification handler (load) is not a regression: look once more
                        drop(g);
                        s.pump_for(Duration::from_millis(400));
                        let inv2 = new_invoice(&mut rng, Some(1_000_000), Hints::None);
                        s.preimages.insert(hex::encode(inv2.hash), inv2.preimage);
                        let before2 = s.pays_seen.len();
                        s.send_doc(&hook("h2", tramp_request(&inv2, 2, 1_005_000, 1_005_000, expiry, told_max)), 0);
                        let w2 = s.wait_or_ping(|s| s.reply("h2").is_some(), Duration::from_secs(10));
                        if w2 == Wait::Done && s.pays_seen.len() > before2 {
                            md = s.pays_seen.last().unwrap()["maxdelay"].as_u64().unwrap_or(u64::MAX);
                        } else {
                            md = want;
                        }
                        g = acc.lock().unwrap();
                    }
                    g.e(if long { "R20b-e2e" } else { "R20a-e2e" }, 1);
                    g.class(if burst { "burst of 200-400 notifications".to_string() } else { format!("{} notifications{}", seq.len(), if long { " + silent rise" } else { "" }) });
                    if md != want {
                        let used = expiry as i64 - cd as i64 - md as i64;
                        let sig = if long { "R20b|e2e-not-caught-up-within-one-poll" } else { "R20a|e2e-height-used-not-max-told" };
                        g.v(sig, format!("start height {h0}, notifications {seq:?}{}: pay.maxdelay {md} means height {used} was used, the maximum told is {told_max}", if long { ", then a silent rise of 7 blocks and 63 s of waiting" } else { "" }));
                    }
                    if g.samples.len() < 2 {
                        g.samples.push(json!({"start_height": h0, "notifications": seq, "maxdelay": md, "expected": want, "long": long}));
                    }
                } else {
                    g.v("R20a|e2e-probe-not-paid", format!("funded probe answered {:?} without a pay", s.reply("h")));
                }
                drop(g);
                s.finish();
            });
        }
    });
    let a = acc.into_inner().unwrap();
    E2eResult { coverage: json!({"sessions": sessions, "poll_sessions_63s": long_sessions, "classes": a.classes, "samples": a.samples}), violations: a.viol, evals: a.evals, inconclusive: a.inconclusive }
}

// ------------------------------------------------------------------ C02 / C05 E2E: slow pay, connection lost after pay was accepted

/// `slow`: the pay command runs for `secs` seconds without any part, then completes. While it
/// runs the HTLC must stay held (R02 on the node's own knowledge: it has not answered pay).
/// `drop`: the RPC connection dies right after lightningd accepted pay (the command has ended,
/// one part is pending and completes when waited on): the plugin must not issue a second pay
/// (R05) and must settle with the preimage.
pub fn pay_transport_sessions(bin: &str, seed: u64, slow_secs: &[u64], drops: u64) -> E2eResult {
    let acc = Mutex::new(Acc::new());
    // (pay keeps running for `arg` seconds?, arg); for dropped-connection sessions arg selects the
    // variant: even = connection lost after pay was accepted, odd = that and the connection of the
    // first waitsendpay lost as well (the part settles meanwhile)
    let mut items: Vec<(bool, u64)> = slow_secs.iter().map(|s| (true, *s)).collect();
    for k in 0..drops {
        items.push((false, k));
    }
    // pay outliving the configured payment timeout (3 s) by several seconds
    items.push((true, 8));
    let next = std::sync::atomic::AtomicU64::new(0);
    std::thread::scope(|sc| {
        for _ in 0..items.len().min(8).max(1) {
            sc.spawn(|| loop {
                let i = next.fetch_add(1, std::sync::atomic::Ordering::Relaxed) as usize;
                if i >= items.len() {
                    break;
                }
                let (slow, arg) = items[i];
                let mut rng = Rng::new(mix(seed, 0x5107 + i as u64));
                let height = 4000u32;
                let pay_timeout = if slow && arg < 30 { 3 } else { 120 };
                let mut s = match Session::start(bin, &json!({"trampoline-payment-timeout": pay_timeout}), false, height, None) {
                    Ok((Some(s), _)) => s,
                    _ => {
                        acc.lock().unwrap().inconclusive.push("plugin did not start".into());
                        continue;
                    }
                };
                let inv = new_invoice(&mut rng, Some(1_000_000), Hints::None);
                let hx = hex::encode(inv.hash);
                s.preimages.insert(hx.clone(), inv.preimage);
                s.hashes = vec![hx.clone()];
                s.stuck.push((hx.clone(), if slow { "pay-slow" } else if arg % 2 == 1 { "pay-drop-wait-drop" } else { "pay-drop" }));
                s.send_doc(&hook("x", tramp_request(&inv, 1, 1_005_000, 1_005_000, height + 1100, height)), 0);
                if slow {
                    // keep pay running; the HTLC must not be answered meanwhile
                    s.pump_until(|s| !s.slow_pays.is_empty() || s.out_eof, Duration::from_secs(10));
                    let t0 = Instant::now();
                    let mut early: Option<Value> = None;
                    while t0.elapsed() < Duration::from_secs(arg) {
                        s.pump_for(Duration::from_millis(200));
                        if let Some(r) = s.reply("x") {
                            early = Some(r.clone());
                            break;
                        }
                        if s.out_eof {
                            break;
                        }
                    }
                    let mut g = acc.lock().unwrap();
                    g.e("R02-e2e", 1);
                    g.class(format!("pay running for {arg}s (payment timeout {pay_timeout}s)"));
                    if let Some(r) = &early {
                        g.v("R02|e2e-answered-while-pay-running", format!("pay had been running for {:?} (of {arg} s, configured payment timeout {pay_timeout} s) with no answer from lightningd when the HTLC was answered {}", t0.elapsed(), r["result"]));
                    }
                    drop(g);
                    if early.is_some() {
                        // the sender retries at once: a second pay while the first one is running?
                        let before = s.pays_seen.len();
                        s.send_doc(&hook("x-retry", tramp_request(&inv, 2, 1_005_000, 1_005_000, height + 1100, height)), 0);
                        s.pump_until(move |s| s.pays_seen.len() > before || s.out_eof, Duration::from_secs(8));
                        let mut g = acc.lock().unwrap();
                        g.e("R05-e2e", 1);
                        if s.pays_seen.len() > before {
                            g.v("R05|e2e-second-pay-while-first-running", format!("a retry of the failed-back set made the plugin issue pay again while lightningd was still executing the first pay command (running for {:?})", t0.elapsed()));
                        }
                    }
                    s.finish_slow_pays();
                    let wres = s.wait_or_ping(|s| s.reply("x").is_some(), Duration::from_secs(10));
                    let mut g = acc.lock().unwrap();
                    let kind = s.reply("x").and_then(result_of).map(|x| x.0);
                    if wres == Wait::Hung || (wres == Wait::Done && kind.as_deref() != Some("resolve") && g.viol.is_empty()) {
                        g.v("R02|e2e-slow-pay-not-settled", format!("pay completed after {arg} s; HTLC answered {:?}", s.reply("x").map(|r| r["result"].to_string())));
                    }
                    if g.samples.len() < 2 {
                        g.samples.push(json!({"kind": "slow pay", "seconds": arg, "answer": s.reply("x").map(|r| r["result"].clone())}));
                    }
                } else {
                    let wres = s.wait_or_ping(|s| s.reply("x").is_some(), Duration::from_secs(15));
                    let mut g = acc.lock().unwrap();
                    g.e("R05-e2e", 1);
                    g.class(if arg % 2 == 1 { "connection lost after pay accepted, and again on the first waitsendpay".into() } else { "connection lost after pay accepted".into() });
                    let pays = s.pays_seen.len();
                    if pays > 1 {
                        g.v("R05|e2e-pay-reissued-after-transport-error", format!("{pays} pay commands were issued for one attempt: the first had been accepted and its part was still pending"));
                    }
                    let kind = s.reply("x").and_then(result_of).map(|x| x.0);
                    if wres == Wait::TooSlow {
                        g.inconclusive.push("session too slow to judge".into());
                    } else if kind.as_deref() != Some("resolve") && pays <= 1 {
                        g.v("R02|e2e-not-settled-after-transport-error", format!("the accepted payment completed but the HTLC was answered {:?}", s.reply("x").map(|r| r["result"].to_string())));
                        // the sender retries the failed-back set: is the paid invoice paid again?
                        drop(g);
                        s.send_doc(&hook("x-retry", tramp_request(&inv, 2, 1_005_000, 1_005_000, height + 1100, height)), 0);
                        s.pump_until(move |s| s.pays_seen.len() > pays || s.out_eof, Duration::from_secs(8));
                        g = acc.lock().unwrap();
                        if s.pays_seen.len() > pays {
                            g.v("R05|e2e-pay-again-after-the-accepted-payment-completed", format!("{} pay commands: the first was accepted and its part completed; the retried set was paid again", s.pays_seen.len()));
                        }
                    }
                    for (sig, d) in std::mem::take(&mut s.node_violations) {
                        g.v(&sig, d);
                    }
                    if g.samples.len() < 3 {
                        g.samples.push(json!({"kind": "connection dropped after pay accepted", "pays_seen": pays, "answer": s.reply("x").map(|r| r["result"].clone())}));
                    }
                }
                s.finish();
            });
        }
    });
    let a = acc.into_inner().unwrap();
    E2eResult { coverage: json!({"sessions": items.len(), "classes": a.classes, "samples": a.samples}), violations: a.viol, evals: a.evals, inconclusive: a.inconclusive }
}


/// C01 through the real rpc.rs: payment H1 is waited on with two outgoing parts; the first
/// settles, lightningd answers the second part's waitsendpay *late* - after the plugin has
/// settled H1 and while another payment H2 is waiting on its own part. Nothing of H1's late
/// answer may reach H2: its HTLC stays held (its part is pending) and, when H2's part settles,
/// is resolved with H2's preimage.
pub fn late_reply_sessions(bin: &str, seed: u64, sessions: u64) -> E2eResult {
    let acc = Mutex::new(Acc::new());
    let next = std::sync::atomic::AtomicU64::new(0);
    std::thread::scope(|sc| {
        for _ in 0..sessions.min(6).max(1) {
            sc.spawn(|| loop {
                let i = next.fetch_add(1, std::sync::atomic::Ordering::Relaxed);
                if i >= sessions {
                    break;
                }
                let mut rng = Rng::new(mix(seed, 0x1a7e + i));
                let height = 5000u32;
                let mut s = match Session::start(bin, &json!({"trampoline-payment-timeout": 120}), false, height, None) {
                    Ok((Some(s), _)) => s,
                    _ => {
                        acc.lock().unwrap().inconclusive.push("plugin did not start".into());
                        continue;
                    }
                };
                let inv1 = new_invoice(&mut rng, Some(1_000_000), Hints::None);
                let inv2 = new_invoice(&mut rng, Some(1_000_000), Hints::None);
                let (h1, h2) = (hex::encode(inv1.hash), hex::encode(inv2.hash));
                s.preimages.insert(h1.clone(), inv1.preimage);
                s.preimages.insert(h2.clone(), inv2.preimage);
                s.hashes = vec![h1.clone(), h2.clone()];
                if i % 3 == 2 {
                    // variant: both payments lose the connection after pay was accepted and again on
                    // the first waitsendpay while the part settles, so each learns its preimage from
                    // the completed-sendpays list, H2 right after H1 (nothing of H1's list may be
                    // served to H2)
                    let mode = if i % 2 == 0 { "pay-drop-complete" } else { "pay-drop-wait-drop" };
                    s.stuck.push((h1.clone(), mode));
                    s.stuck.push((h2.clone(), mode));
                    s.send_doc(&hook("x1", tramp_request(&inv1, 1, 1_005_000, 1_005_000, height + 1100, height)), 0);
                    let w1 = s.wait_or_ping(|s| s.reply("x1").is_some(), Duration::from_secs(15));
                    let mut breq = tramp_request(&inv2, 1, 1_005_000, 1_005_000, height + 1100, height);
                    breq["htlc"]["short_channel_id"] = json!("7x7x7");
                    s.send_doc(&hook("x2", breq), 0);
                    let w2 = s.wait_or_ping(|s| s.reply("x2").is_some(), Duration::from_secs(15));
                    let mut g = acc.lock().unwrap();
                    g.e("R01a-e2e-late", 1);
                    g.class("two payments learning their preimage from the completed-sendpays list back to back".into());
                    if w1 == Wait::TooSlow || w2 == Wait::TooSlow {
                        g.inconclusive.push("late-reply session too slow to judge".into());
                    }
                    for (id, inv) in [("x1", &inv1), ("x2", &inv2)] {
                        if let Some((k, res)) = s.reply(id).and_then(result_of) {
                            let key = res["payment_key"].as_str().unwrap_or("").to_string();
                            if k == "resolve" && key != hex::encode(inv.preimage) {
                                g.v("R01a|e2e-settled-with-another-payments-answer", format!("HTLC {id} of {} resolved with {key}, which is not its preimage (the other payment's is {})", hex::encode(inv.hash), hex::encode(if id == "x1" { inv2.preimage } else { inv1.preimage })));
                            }
                        }
                    }
                    drop(g);
                    s.finish();
                    continue;
                }
                s.stuck.push((h1.clone(), "two-parts"));
                s.stuck.push((h2.clone(), "waitsendpay"));
                // variants: how many other calls happen between H1's settlement and H2's wait
                let idle_calls = i % 3;
                s.send_doc(&hook("x1", tramp_request(&inv1, 1, 1_005_000, 1_005_000, height + 1100, height)), 0);
                let w1 = s.wait_or_ping(|s| s.reply("x1").is_some(), Duration::from_secs(15));
                let k1 = s.reply("x1").and_then(result_of);
                let ok1 = matches!(&k1, Some((k, res)) if k == "resolve" && res["payment_key"].as_str() == Some(hex::encode(inv1.preimage).as_str()));
                if w1 != Wait::Done || !ok1 || s.late.is_empty() {
                    let mut g = acc.lock().unwrap();
                    if w1 == Wait::Done && !ok1 {
                        g.v("R01a|e2e-first-payment-not-settled-with-its-preimage", format!("H1 answered {:?}", s.reply("x1").map(|r| r["result"].to_string())));
                    } else {
                        g.inconclusive.push(format!("late-reply session did not reach its starting point ({w1:?}, late calls {})", s.late.len()));
                    }
                    drop(g);
                    s.finish();
                    continue;
                }
                for k in 0..idle_calls {
                    // unrelated traffic: plain forwards (no RPC) and a block notification
                    s.send_doc(&hook(&format!("f{k}"), forward_request(900 + k, "")), 0);
                }
                s.send_doc(&hook("x2", tramp_request(&inv2, 2, 1_005_000, 1_005_000, height + 1100, height)), 0);
                // H2's lifecycle reaches its waitsendpay (held by lightningd)
                let reached = s.pump_until(|s| !s.held.is_empty() || s.reply("x2").is_some() || s.out_eof, Duration::from_secs(15));
                let late_n = s.late.len();
                if reached && s.reply("x2").is_none() {
                    s.answer_late();
                    s.pump_for(Duration::from_millis(1500));
                }
                let mut g = acc.lock().unwrap();
                g.e("R01a-e2e-late", 1);
                g.class(format!("late waitsendpay answer of another hash, {idle_calls} unrelated hook calls in between"));
                match s.reply("x2").and_then(result_of) {
                    None => {}
                    Some((k, res)) => {
                        let key = res["payment_key"].as_str().unwrap_or("").to_string();
                        if k == "resolve" && key != hex::encode(inv2.preimage) {
                            g.v("R01a|e2e-settled-with-another-payments-answer", format!("HTLC of {h2} resolved with {key} (H1's preimage is {}) after lightningd answered a waitsendpay of {h1} late; H2's own part is still pending", hex::encode(inv1.preimage)));
                        } else {
                            g.v("R02|e2e-answered-while-part-pending-after-late-reply", format!("HTLC of {h2} answered {k} while its part is pending"));
                        }
                    }
                }
                if g.samples.len() < 2 {
                    g.samples.push(json!({"late_calls_answered": late_n, "h2_answer_after_late_reply": s.reply("x2").map(|r| r["result"].clone()), "h2_reached_waitsendpay": reached}));
                }
                drop(g);
                s.finish();
            });
        }
    });
    let a = acc.into_inner().unwrap();
    E2eResult { coverage: json!({"sessions": sessions, "classes": a.classes, "samples": a.samples}), violations: a.viol, evals: a.evals, inconclusive: a.inconclusive }
}


/// What reaches lightningd's `pay` through the real rpc.rs: (a) an amountless invoice with a
/// sender-declared amount that is not a multiple of 1000 msat: pay.amount_msat must be exactly that
/// amount; (b) the first pay answered with a JSON-RPC error (-32602, -1, 205): whatever pay the
/// plugin issues afterwards must still carry maxdelay within the bound and a maxfee within the
/// budget; (c) every pay: maxdelay <= min(policy delta, expiry - height - safety delta), maxfee <=
/// held - amount, bolt11 = the invoice.
pub fn pay_params_sessions(bin: &str, seed: u64, sessions: u64) -> E2eResult {
    let acc = Mutex::new(Acc::new());
    let next = std::sync::atomic::AtomicU64::new(0);
    std::thread::scope(|sc| {
        for _ in 0..sessions.min(6).max(1) {
            sc.spawn(|| loop {
                let i = next.fetch_add(1, std::sync::atomic::Ordering::Relaxed);
                if i >= sessions {
                    break;
                }
                let mut rng = Rng::new(mix(seed, 0x9a9 + i));
                let height = 6000u32;
                let (cd, pd) = (34u32, 1008u32);
                let mut s = match Session::start(bin, &json!({"trampoline-mpp-timeout": 3}), false, height, None) {
                    Ok((Some(s), _)) => s,
                    _ => {
                        acc.lock().unwrap().inconclusive.push("plugin did not start".into());
                        continue;
                    }
                };
                let amountless = i % 2 == 0;
                let declared = 1_000_000u64 + if amountless { 1 + rng.below(998) } else { 0 };
                let inv = new_invoice(&mut rng, if amountless { None } else { Some(declared) }, Hints::None);
                let hx = hex::encode(inv.hash);
                s.preimages.insert(hx.clone(), inv.preimage);
                s.hashes = vec![hx.clone()];
                let err_code: Option<i64> = match i % 4 { 2 => Some(-32602), 3 => Some(*rng.pick(&[-1i64, 205, 210])), _ => None };
                if let Some(c) = err_code {
                    s.pay_error_once = Some(c);
                }
                let held = declared + declared / 200 + 10;
                let expiry = height + if i % 3 == 0 { pd + 10 } else { 1100 };
                let mut req = tramp_request(&inv, 1, held, held, expiry, height);
                if amountless {
                    // the sender-declared amount travels in the metadata's amount record
                    req = tramp_request_amt(&inv, 1, held, held, expiry, height, declared);
                }
                s.send_doc(&hook("q", req), 0);
                let wres = s.wait_or_ping(|s| s.reply("q").is_some(), Duration::from_secs(15));
                // a retry of the set after a failed first pay
                if err_code.is_some() && s.reply("q").and_then(result_of).map(|x| x.0).as_deref() == Some("fail") {
                    let mut req2 = if amountless { tramp_request_amt(&inv, 2, held, held, expiry, height, declared) } else { tramp_request(&inv, 2, held, held, expiry, height) };
                    req2["htlc"]["id"] = json!(2);
                    s.send_doc(&hook("q2", req2), 0);
                    s.wait_or_ping(|s| s.reply("q2").is_some(), Duration::from_secs(15));
                }
                let mut g = acc.lock().unwrap();
                if wres == Wait::TooSlow {
                    g.inconclusive.push("pay-parameter session too slow to judge".into());
                }
                g.class(format!("amountless={amountless} first pay error={err_code:?} tight expiry={}", i % 3 == 0));
                for p in &s.pays_seen {
                    g.e("R03c-e2e", 1);
                    g.e("R04a-e2e", 1);
                    let amt = p.get("amount_msat").and_then(|v| v.as_u64().or_else(|| v.as_str().and_then(|x| x.trim_end_matches("msat").parse().ok())));
                    if amountless && amt != Some(declared) {
                        g.v("R03c|e2e-amount-differs-from-declared", format!("amountless invoice, sender declared {declared} msat, pay carries amount_msat {:?}", p.get("amount_msat")));
                    }
                    if !amountless && p.get("amount_msat").map(|v| !v.is_null()).unwrap_or(false) {
                        g.v("R03c|e2e-amount-given-for-fixed-invoice", format!("pay carries amount_msat {:?} for an invoice with an amount", p.get("amount_msat")));
                    }
                    if p.get("bolt11").and_then(|b| b.as_str()) != Some(inv.facts.bolt11.as_str()) {
                        g.v("R03c|e2e-bolt11-differs", "pay carries another invoice string".into());
                    }
                    let bound = ((expiry - height).saturating_sub(cd)).min(pd) as u64;
                    match p.get("maxdelay").and_then(|v| v.as_u64()) {
                        None => g.v("R04a|e2e-maxdelay-missing", format!("pay without maxdelay (first pay error {err_code:?}): {}", p.to_string().chars().take(300).collect::<String>())),
                        Some(md) if md > bound => g.v("R04a|e2e-maxdelay-too-large", format!("maxdelay {md} > {bound}")),
                        _ => {}
                    }
                    let mf = p.get("maxfee").and_then(|v| v.as_u64().or_else(|| v.as_str().and_then(|x| x.trim_end_matches("msat").parse().ok())));
                    g.e("R03b-e2e", 1);
                    match mf {
                        None => g.v("R03b|e2e-maxfee-missing", format!("pay without maxfee: {}", p.to_string().chars().take(300).collect::<String>())),
                        Some(m) if m > held - declared => g.v("R03b|e2e-maxfee-exceeds-budget", format!("maxfee {m} > held {held} - amount {declared}")),
                        _ => {}
                    }
                }
                if g.samples.len() < 3 {
                    g.samples.push(json!({"amountless": amountless, "declared": declared, "first_pay_error": err_code, "answer": s.reply("q").map(|r| r["result"].clone()), "pays": s.pays_seen.iter().map(|p| json!({"amount_msat": p.get("amount_msat"), "maxdelay": p.get("maxdelay"), "maxfee": p.get("maxfee")})).collect::<Vec<_>>()}));
                }
                drop(g);
                s.finish();
            });
        }
    });
    let a = acc.into_inner().unwrap();
    E2eResult { coverage: json!({"sessions": sessions, "classes": a.classes, "samples": a.samples}), violations: a.viol, evals: a.evals, inconclusive: a.inconclusive }
}

pub fn tramp_request_amt(inv: &Inv, id: u64, amount_msat: u64, total: u64, expiry: u32, height: u32, declared: u64) -> Value {
    let spec = HtlcSpec {
        uid: 0,
        scid: "9x9x9".into(),
        htlc_id: id,
        htlc_hash: inv.hash,
        amount_msat,
        cltv_expiry: expiry,
        forward_msat: Some(amount_msat),
        total_msat: Some(total),
        onion_scid: None,
        other_recs: vec![(2, tu64(amount_msat)), (4, tu64(expiry as u64))],
        metadata: Metadata::Tramp { invoice: inv.facts.clone(), amt: AmtField::Bytes(tu64(declared)), extra_before: vec![], extra_after: vec![] },
        raw_payload_hex: None,
        label: RefLabel::Continue,
        gate: Gate::None,
        hash_hex_override: None,
    };
    request_json(&spec, height)
}
