#!/bin/bash
# usage: confirm_mut.sh <outdir> <A|B>   -- confirms a sub-agent's mutation in the scratch worktree /tmp/wt1
out=$1; x=$2
cd /tmp/wt1 || exit 2
git checkout -q -- . ; git clean -fdq .
head=$(git -C /repo rev-parse HEAD); git checkout -q --detach $head
res=""
# (a) mutation only: existing suite passes
git apply $out/mut$x.diff || { echo "mut$x does not apply"; exit 2; }
a=$(cargo test --offline 2>&1 | grep -E "^test result" | head -1)
git checkout -q -- . ; git clean -fdq .
# (b) demo only: passes
git apply $out/demo$x.diff || { echo "demo$x does not apply"; exit 2; }
b=$(cargo test --offline 2>&1 | grep -E "^test result|FAILED|panicked" | head -3 | tr '\n' ' ')
# (c) both: demo fails
git apply $out/mut$x.diff || { echo "mut$x does not apply on top of demo"; }
c=$(cargo test --offline 2>&1 | grep -E "^test result|^test .* FAILED" | head -4 | tr '\n' ' ')
git checkout -q -- . ; git clean -fdq .
echo "(a) mut only : $a"
echo "(b) demo only: $b"
echo "(c) both     : $c"
