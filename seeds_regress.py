#!/usr/bin/env python3
"""Re-run every seeded mutation against the checks recorded as catching it (quick tier).
usage: seeds_regress.py [first-check-only]   -> prints one line per (seed, check); exit 1 if a catch was lost."""
import json, os, subprocess, sys, glob
lost = []
only_first = len(sys.argv) > 1
start = sys.argv[2] if len(sys.argv) > 2 else ''
for d in sorted(glob.glob('/verif/seeded/*/')):
    if os.path.basename(d[:-1]) < start:
        continue
    meta = json.load(open(d + 'meta.json'))
    checks = [c for c in meta['caught_by_quick'] if c.startswith('C') and len(c) == 3]
    if only_first:
        # the check of the property the mutation was written for, if it is among the catchers
        own = [c for c in checks if c == meta['property']]
        checks = own or checks[:1]
    if not checks:
        continue
    r = subprocess.run(['/verif/mut_eval.sh', d + 'patch.diff', 'quick'] + checks, capture_output=True, text=True, errors='replace')
    for line in r.stdout.splitlines():
        parts = line.split()
        if len(parts) >= 2 and parts[1].startswith('rc='):
            ok = parts[1] == 'rc=1'
            print(f"{os.path.basename(d[:-1])} {parts[0]} {'caught' if ok else 'LOST ' + parts[1]}", flush=True)
            if not ok:
                lost.append((d, parts[0]))
        elif 'does not apply' in line or 'dirty' in line:
            print(f"{os.path.basename(d[:-1])} ERROR {line}", flush=True)
            lost.append((d, line))
print("lost:", lost)
sys.exit(1 if lost else 0)
