#!/bin/bash
# usage: mut_eval.sh <patch.diff> <tier> <check ids...>
# Applies the patch to /repo, runs the listed checks, always reverts. Prints one line per check.
patch=$1; tier=$2; shift 2
cd /repo || exit 2
if ! git diff --quiet; then echo "/repo dirty, refusing"; exit 2; fi
trap 'git -C /repo checkout -- . ; git -C /repo clean -fdq src' EXIT
git apply "$patch" || { echo "patch does not apply"; exit 2; }
cd /verif
for id in "$@"; do
  s=$(date +%s)
  out=$(./check $id --tier $tier 2>&1); rc=$?
  e=$(( $(date +%s) - s ))
  echo "$id rc=$rc ${e}s $(echo "$out" | grep -E "^  |VIOLATION|INCONCLUSIVE" | head -2 | cut -c1-260 | tr '\n' ' ')"
done
