#!/bin/bash
# usage: [MUT_REPO=<scratch worktree>] mut_eval.sh <patch.diff> <tier> <check ids...>
# Applies the patch to /repo (or to the scratch worktree named by MUT_REPO, leaving /repo alone),
# runs the listed checks, always reverts. Prints one line per check.
HERE="$(dirname "$(readlink -f "$0")")"
patch=$(readlink -f "$1"); tier=$2; shift 2
R=${MUT_REPO:-/repo}
cd "$R" || exit 2
if ! git diff --quiet; then echo "$R dirty, refusing"; exit 2; fi
trap 'git -C "$R" checkout -- . ; git -C "$R" clean -fdq src' EXIT
git apply "$patch" || { echo "patch does not apply"; exit 2; }
cd "$HERE"
[ -n "$MUT_REPO" ] && export VERIF_REPO=$MUT_REPO
for id in "$@"; do
  s=$(date +%s)
  out=$(./check $id --tier $tier 2>&1); rc=$?
  e=$(( $(date +%s) - s ))
  echo "$id rc=$rc ${e}s $(echo "$out" | grep -E "^  |VIOLATION|INCONCLUSIVE" | head -2 | cut -c1-260 | tr '\n' ' ')"
done
