#!/bin/bash
# run every check of a tier once; prints one line per check
tier=${1:-quick}
cd "$(dirname "$(readlink -f "$0")")"
for i in $(seq -w 1 20); do
  id=C$i
  s=$(date +%s)
  out=$(./check $id --tier $tier 2>&1); rc=$?
  e=$(( $(date +%s) - s ))
  echo "$id rc=$rc ${e}s $(echo "$out" | grep -E "VIOLATION|KNOWN-FINDING|INCONCLUSIVE" | cut -c1-160 | head -3 | tr '\n' ' ')"
done
