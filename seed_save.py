#!/usr/bin/env python3
"""seed_save.py <prop> <A|B> <caught_by comma list> <missed_by comma list> <needs text>
Copies a confirmed sub-agent mutation into /verif/seeded/<prop>-<X>/ with meta.json."""
import sys, os, shutil, json, subprocess
prop, x, caught, missed, needs = sys.argv[1:6]
suffix = sys.argv[6] if len(sys.argv) > 6 else ''
name = sys.argv[7] if len(sys.argv) > 7 else x
src=f'/tmp/mut/{prop}-out{suffix}'
dst=f'/verif/seeded/{prop}-{name}'
os.makedirs(dst, exist_ok=True)
shutil.copy(f'{src}/mut{x}.diff', f'{dst}/patch.diff')
shutil.copy(f'{src}/demo{x}.diff', f'{dst}/demo.diff')
shutil.copy(f'{src}/mut{x}.md', f'{dst}/notes.md')
head=subprocess.run(['git','-C','/repo','rev-parse','--short','HEAD'],capture_output=True,text=True).stdout.strip()
meta={
 "property": prop,
 "origin": "independent sub-agent given only the property text and a scratch worktree",
 "applies_to_repo_commit": head,
 "breaks": prop,
 "needs_to_manifest": needs,
 "confirmed": {
   "how": "/verif/confirm_mut.sh in scratch worktree /tmp/wt1 (removed afterwards)",
   "existing_suite_with_patch": "56 passed",
   "demo_without_patch": "passes",
   "demo_with_patch": "fails",
 },
 "checks_run": "./mut_eval.sh <patch> quick <ids>  (git -C /repo apply; ./check <id>; git -C /repo checkout -- .)",
 "caught_by_quick": [c for c in caught.split(',') if c],
 "not_caught_by_quick": [c for c in missed.split(',') if c],
}
json.dump(meta, open(f'{dst}/meta.json','w'), indent=1)
print('saved', dst)
