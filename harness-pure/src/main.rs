//! vpure: the PURE workload sized for Miri (`cargo +nightly miri run -- C18|C12 --seed N`).
//! Includes the plugin's tlv.rs and messages.rs and the shared generators/oracles.
#![allow(dead_code)]

pub use anyhow::Error;

#[path = "../repo_src/messages.rs"]
pub mod messages;
#[path = "../repo_src/tlv.rs"]
pub mod tlv;
#[path = "../../harness/src/pure.rs"]
pub mod pure;

use pure::*;

fn main() {
    std::panic::set_hook(Box::new(|_| {}));
    let args: Vec<String> = std::env::args().collect();
    let id = args.get(1).cloned().unwrap_or("C18".into());
    let seed: u64 = args.iter().position(|a| a == "--seed").and_then(|i| args.get(i + 1)).and_then(|s| s.parse().ok()).unwrap_or(1);
    let n: u64 = args.iter().position(|a| a == "--n").and_then(|i| args.get(i + 1)).and_then(|s| s.parse().ok()).unwrap_or(60);
    let mut st = PureStats::default();
    match id.as_str() {
        "C18" => {
            SMALL.store(true, std::sync::atomic::Ordering::Relaxed);
            tlv_exhaustive(&mut st, 1, 0, 1); // all strings <= 1 byte
            tlv_alphabet(&mut st, 3, 0, 1); // 7 + 49 + 343 strings over the boundary alphabet
            tlv_structured(&mut st, seed, n);
        }
        _ => {
            fee_random(&mut st, seed, n * 10);
            fee_encoding(&mut st, seed, 50);
            // a slice of the boundary product
            for base in [0u32, 1000, u32::MAX] {
                for ppm in [0u32, 1, 5000, u32::MAX] {
                    let vals = fee_boundary_values(base, ppm);
                    for (i, &a) in vals.iter().enumerate() {
                        let t = vals[(i * 7 + 3) % vals.len()];
                        fee_case(&mut st, t, a, base, ppm);
                        fee_case(&mut st, u64::MAX, a, base, ppm);
                    }
                }
            }
        }
    }
    println!("{}", st.to_json_string());
}
